(* Props/C17.v -- Opcode tables are internally consistent and match the EVM stack discipline.
   This file holds only the property theorems, each closed by lemmas of Proofs/OpsProofs.v,
   with Print Assumptions beneath and the statement pinned by Check. *)
From Coq Require Import Lia.
From Verif Require Import Model.Base Model.Ops Spec.EvmOpcodes Proofs.OpsProofs.
Open Scope N_scope.

(* (1) byte <-> opcode <-> mnemonic conversions are mutually inverse, all 256 bytes, 3 forks *)
Theorem C17_conversions : forall f c, c < 256 ->
  let t := fork_table f in
  length t = 256%nat /\
  to_u8 (from_u8 t c) = c /\
  from_str t (display (from_u8 t c)) = Some (from_u8 t c) /\
  (forall r, In r t -> from_u8 t (to_u8 r) = r) /\
  (forall s r, from_str t s = Some r -> In r t /\ display r = s) /\
  NoDup (map r_mnem t).
Proof.
  intros f c Hc t.
  destruct (chk_fork_parts _ _ _ (fork_ok f)) as (Hl & Hu & Hs & He & Hp & Hm & Hd).
  fold t in Hl, Hu, Hs, He, Hp, Hm.
  repeat split.
  - exact (table_length t Hl).
  - exact (to_from_u8 t Hu c Hc).
  - apply opt_row_eqb_eq. exact (bytes_all_spec _ Hs c Hc).
  - intros r Hr. exact (proj2 (In_table_from_u8 t Hl Hu r Hr)).
  - exact (proj1 (from_str_sound t s r H)).
  - exact (proj2 (from_str_sound t s r H)).
  - apply nodup_str_NoDup. exact Hm.
Qed.
Print Assumptions C17_conversions.

(* (2) size = 1 + immediate length; N for pushN, 0 otherwise *)
Theorem C17_size : forall f c, c < 256 ->
  let t := fork_table f in
  size (from_u8 t c) = 1 + r_extra (from_u8 t c) /\
  r_extra (from_u8 t c) = evm_imm_len c.
Proof.
  intros f c Hc t.
  destruct (chk_fork_parts _ _ _ (fork_ok f)) as (Hl & Hu & Hs & He & Hp & Hm & Hd).
  split; [reflexivity|]. apply N.eqb_eq. exact (bytes_all_spec _ He c Hc).
Qed.
Print Assumptions C17_size.

(* (3) construction from bytes: any slice length (a slice always carries the opcode byte) *)
Theorem C17_from_slice : forall f bs, bs <> [] ->
  let t := fork_table f in
  (is_ok (from_slice t bs) = true <->
     N.of_nat (length bs) = 1 + r_extra (from_u8 t (hd 0 bs))) /\
  (forall r imm, from_slice t bs = Ok (r, imm) -> r = from_u8 t (hd 0 bs) /\ imm = tl bs).
Proof.
  intros f bs Hne t. split.
  - exact (from_slice_ok_iff t bs Hne).
  - destruct bs as [|c rest]; [congruence|]. intros r imm. rewrite from_slice_spec. cbn [hd tl].
    destruct (_ =? _); [intros H; inversion H; auto|].
    destruct (_ <? _); discriminate.
Qed.
Print Assumptions C17_from_slice.

(* (4) smallest push: every n representable as u128 *)
Theorem C17_push_for : forall f n, n < 2 ^ 128 ->
  exists r k, push_for (fork_table f) n = Ok r /\
    r_extra r = k /\ r_code r = 0x5f + k /\
    1 <= k <= 16 /\ (n = 0 \/ 256 ^ (k - 1) <= n) /\ n < 256 ^ k.
Proof.
  intros f n Hn.
  destruct (chk_fork_parts _ _ _ (fork_ok f)) as (Hl & Hu & Hs & He & Hp & Hm & Hd).
  destruct (push_for_spec _ Hp n Hn) as [r [H1 [H2 H3]]].
  destruct (push_width_bounds n Hn) as [B1 [B2 B3]].
  exists r, (push_width n). auto 10.
Qed.
Print Assumptions C17_push_for.

(* (5) declared pops/pushes/flags equal the EVM's; (6) defined only if the fork has it *)
Theorem C17_metadata : forall f c, c < 256 ->
  let t := fork_table f in
  if defined_in (fork_rows f) c then
    exists s, evm_spec f c = Some s /\
      r_pops (from_u8 t c) = s_pops s /\ r_pushes (from_u8 t c) = s_pushes s /\
      r_exits (from_u8 t c) = s_halts s /\ r_jump (from_u8 t c) = s_jump s /\
      r_jt (from_u8 t c) = s_jumpdest s
  else from_u8 t c = invalid_row c.
Proof. intros f c Hc. exact (chk_metadata_spec f _ _ (fork_meta f) c Hc). Qed.
Print Assumptions C17_metadata.

(* non-vacuity: the tables are the result of a successful read_fork and not empty *)
Example C17_tables_nonempty :
  is_ok (full_table london_rows) = true /\ is_ok (full_table shanghai_rows) = true /\
  is_ok (full_table cancun_rows) = true /\ defined_in cancun_rows 0x5e = true /\
  defined_in london_rows 0x5f = false.
Proof. vm_compute. auto. Qed.

(* statements pinned *)
Check C17_conversions : forall f c, c < 256 ->
  let t := fork_table f in
  length t = 256%nat /\ to_u8 (from_u8 t c) = c /\
  from_str t (display (from_u8 t c)) = Some (from_u8 t c) /\
  (forall r, In r t -> from_u8 t (to_u8 r) = r) /\
  (forall s r, from_str t s = Some r -> In r t /\ display r = s) /\
  NoDup (map r_mnem t).
Check C17_size : forall f c, c < 256 ->
  let t := fork_table f in
  size (from_u8 t c) = 1 + r_extra (from_u8 t c) /\ r_extra (from_u8 t c) = evm_imm_len c.
Check C17_from_slice : forall f bs, bs <> [] ->
  let t := fork_table f in
  (is_ok (from_slice t bs) = true <-> N.of_nat (length bs) = 1 + r_extra (from_u8 t (hd 0 bs))) /\
  (forall r imm, from_slice t bs = Ok (r, imm) -> r = from_u8 t (hd 0 bs) /\ imm = tl bs).
Check C17_push_for : forall f n, n < 2 ^ 128 ->
  exists r k, push_for (fork_table f) n = Ok r /\ r_extra r = k /\ r_code r = 0x5f + k /\
    1 <= k <= 16 /\ (n = 0 \/ 256 ^ (k - 1) <= n) /\ n < 256 ^ k.
Check C17_metadata : forall f c, c < 256 ->
  let t := fork_table f in
  if defined_in (fork_rows f) c then
    exists s, evm_spec f c = Some s /\
      r_pops (from_u8 t c) = s_pops s /\ r_pushes (from_u8 t c) = s_pushes s /\
      r_exits (from_u8 t c) = s_halts s /\ r_jump (from_u8 t c) = s_jump s /\
      r_jt (from_u8 t c) = s_jumpdest s
  else from_u8 t c = invalid_row c.
