(* Props/C02.v -- Output is exactly the encoded instruction stream of the source. *)
From Verif Require Import Model.Base Model.Ops Model.Expr Model.Asm Model.Disasm
  Proofs.DisasmProofs Proofs.AsmLayoutProofs Proofs.AsmRangeProofs Proofs.AsmEncodeProofs.
Open Scope Z_scope.

(* The bytes of a program that assembles are the concatenation, in item order (source order
   after macro expansion and scope inclusion), of what each item emits; a label emits nothing,
   an instruction its opcode byte followed for pushN by exactly N bytes, a %push the opcode
   0x5f+w followed by exactly w bytes, raw/included bytes themselves. Nothing else. *)
Theorem C02_output_is_concatenation : forall ops bytes,
  assemble ops = Ok bytes ->
  exists macros items w pos parts,
    layout macros items = Ok (w, pos) /\
    Forall2 (fun p part => emit_item macros (lenv pos) (fst p) (snd p) = Ok part) (with_widths items w) parts /\
    bytes = concat parts.
Proof.
  intros ops bytes H.
  destruct (assemble_label_offsets ops bytes H) as (macros & items & w & pos & _ & Hl & He & _).
  destruct (emit_concat macros _ _ _ _ He) as (parts & F & E).
  exists macros, items, w, pos, parts. auto.
Qed.
Print Assumptions C02_output_is_concatenation.

Theorem C02_item_encoding : forall macros labels it w part,
  emit_item macros labels it w = Ok part ->
  match it with
  | ILabel _ => part = []
  | IRaw raw => part = raw
  | IOp c None => part = [c]
  | IOp c (Some _) => exists imm, part = c :: imm /\ length imm = extra_of c
  | IPush _ => exists imm, part = (0x5f + N.of_nat w)%N :: imm /\ length imm = w
  end.
Proof. exact emit_item_shape. Qed.
Print Assumptions C02_item_encoding.

(* an independent decoder recovers exactly the instruction list: nothing is reordered,
   dropped or duplicated *)
Theorem C02_decodes_back : forall its,
  Forall wf_item its -> offsets_from 0 its -> decode_all (flatten its) = (its, []).
Proof. exact decode_flatten. Qed.
Print Assumptions C02_decodes_back.

Example C02_example :
  assemble [ROp (ALabel "x"); ROp (AOp 0x61 (Some (ENum 7))); ROp (AMacroDefE "k" [] (ENum 1));
            ROp (AOp 0x01 None); ROp (APush (ELabel "x"))]
  = Ok [0x61; 0; 7; 0x01; 0x60; 0]%N /\
  decode_all [0x61; 0; 7; 0x01; 0x60; 0]%N = ([mkitem 0 0x61 [0; 7]; mkitem 3 0x01 []; mkitem 4 0x60 [0]]%N, []).
Proof. split; vm_compute; reflexivity. Qed.

Check C02_output_is_concatenation : forall ops bytes,
  assemble ops = Ok bytes ->
  exists macros items w pos parts,
    layout macros items = Ok (w, pos) /\
    Forall2 (fun p part => emit_item macros (lenv pos) (fst p) (snd p) = Ok part) (with_widths items w) parts /\
    bytes = concat parts.
Check C02_item_encoding : forall macros labels it w part,
  emit_item macros labels it w = Ok part ->
  match it with
  | ILabel _ => part = []
  | IRaw raw => part = raw
  | IOp c None => part = [c]
  | IOp c (Some _) => exists imm, part = c :: imm /\ length imm = extra_of c
  | IPush _ => exists imm, part = (0x5f + N.of_nat w)%N :: imm /\ length imm = w
  end.
Check C02_decodes_back : forall its,
  Forall wf_item its -> offsets_from 0 its -> decode_all (flatten its) = (its, []).
