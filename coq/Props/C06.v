(* Props/C06.v -- Block annotations agree with instruction-by-instruction execution.

   Model: Model/Annot.v (AnnotatedBlock::annotate with ghost tags on read nodes, erased before
   the comparison with the Rust code).  Specification: Spec/EvmExec.v (execution of the
   instructions one by one on a concrete stack, state reads answered by an oracle rho and
   recorded in a trace), Spec/EvmSem.v (word operations).  Meaning of an annotation:
   eval_texpr / exit_transfer / expr_reads_ok of Model/Annot.v, with var_i bound to the i-th
   word of the entry stack from the top.

   The block is assumed to be what the disassembler (C04: wf_item, byte codes) and the
   separator (C16: non-empty, a jumping/halting instruction only last) deliver; it lies within
   the first 2^16 bytes of the code (EIP-170 limits deployed code to 24576 bytes; the
   annotator stores pc in a u16) and the entry stack has at most 65535 words (the EVM limit is
   1024; the annotator counts variables in a u16); it is outside the known-finding class
   KnownClass_C06_cancun_gap (Cancun opcodes the etk table lacks, see C06_cancun_gap_refuted). *)
From Verif Require Import Model.Base Model.Ops Model.Disasm Model.Blocks Model.Sym Model.Annot
  Spec.EvmSem Spec.EvmExec Proofs.DisasmProofs Proofs.BlocksProofs Proofs.AnnotProofs.

(* (i)-(iv) for the execution at hand: whenever executing the block on s does not underflow, the
   annotator does not panic, declares inputs var1..varn with n <= |s|, its outputs evaluated on s
   followed by the untouched rest of s are the final stack, its exit denotes the executed
   transfer (kind, target, condition, fall-through offset), every read node stands for the
   value its instruction returned (eval_tree) and that instruction received the node's
   arguments (expr_reads_ok, against the trace), and offset/size/jump_target are the block's. *)
Theorem C06_simulation : forall off ops s rho st t tr,
  ops <> [] -> Forall wf_item ops -> Forall (fun it => (i_code it < 256)%N) ops ->
  jmp_only_last cancun_jmp ops ->
  ~ KnownClass_C06_cancun_gap (map instr_of ops) ->
  (off + block_size (mkblock off ops) <= 65536)%N ->
  (Z.of_nat (length s) <= 65535)%Z ->
  exec_block rho (Z.of_N off) (map instr_of ops) s = Done st t tr ->
  exists a, annotate off ops = Ok a /\
    let n := length (an_inputs a) in
    an_inputs a = map Z.of_nat (seq 1 n) /\ (n <= length s)%nat /\
    map (eval_texpr s rho) (an_outputs a) ++ skipn n s = st /\
    exit_transfer s rho (an_exit a) = t /\
    Forall (expr_reads_ok s rho tr) (an_outputs a ++ exit_exprs (an_exit a)) /\
    an_offset a = off /\ an_size a = block_size (mkblock off ops) /\
    an_jt a = match ops with it :: _ => (i_code it =? 0x5b)%N | [] => false end.
Proof.
  intros off ops s rho st t tr H1 H2 H3 H4 H5 H6 Hs Hex.
  apply (annotate_agrees off ops s rho st t tr); [repeat split; assumption|exact Hs|exact Hex].
Qed.
Print Assumptions C06_simulation.

(* the number of declared inputs is exactly the deepest entry-stack slot the block touches:
   for EVERY entry stack and oracle, execution underflows iff the stack has fewer than n words,
   and otherwise the annotation describes it (in particular on firstn n s) *)
Theorem C06_inputs_exact : forall off ops s rho st t tr,
  ops <> [] -> Forall wf_item ops -> Forall (fun it => (i_code it < 256)%N) ops ->
  jmp_only_last cancun_jmp ops ->
  ~ KnownClass_C06_cancun_gap (map instr_of ops) ->
  (off + block_size (mkblock off ops) <= 65536)%N ->
  (Z.of_nat (length s) <= 65535)%Z ->
  exec_block rho (Z.of_N off) (map instr_of ops) s = Done st t tr ->
  exists a, annotate off ops = Ok a /\
    let n := length (an_inputs a) in
    forall s2 rho2,
      ((length s2 < n)%nat -> exec_block rho2 (Z.of_N off) (map instr_of ops) s2 = Underflow) /\
      ((n <= length s2)%nat -> exists tr2,
         exec_block rho2 (Z.of_N off) (map instr_of ops) s2 =
           Done (map (eval_texpr s2 rho2) (an_outputs a) ++ skipn n s2)
                (exit_transfer s2 rho2 (an_exit a)) tr2 /\
         Forall (expr_reads_ok s2 rho2 tr2) (an_outputs a ++ exit_exprs (an_exit a))).
Proof.
  intros off ops s rho st t tr H1 H2 H3 H4 H5 H6 Hs Hex.
  apply (inputs_exact off ops s rho st t tr); [repeat split; assumption|exact Hs|exact Hex].
Qed.
Print Assumptions C06_inputs_exact.

(* the finite fact the no-panic part rests on: for each of the 256 bytes (outside the known class)
   the pops/pushes/exit flags of the generated Cancun table are exactly those the arm of
   annotate_one performs, and the arm is the EVM instruction of Spec/EvmExec.v *)
Theorem C06_counts_match : forall c, (c < 256)%N -> cancun_only c = false ->
  sk_ok c (shape_of c) (kind_of c) = true /\
  N.to_nat (r_pops (from_u8 cancun c)) = need (shape_of c) /\
  N.to_nat (r_pushes (from_u8 cancun c)) = shape_pushes (shape_of c) /\
  (match shape_of c with
   | ShTerm _ => r_exits (from_u8 cancun c)
   | ShJump | ShJumpI => r_jump (from_u8 cancun c)
   | _ => negb (r_exits (from_u8 cancun c))
   end = true) /\
  (r_extra (from_u8 cancun c) <= 32)%N /\
  (shape_of c = ShPush0 -> r_extra (from_u8 cancun c) = 0%N) /\
  r_jt (from_u8 cancun c) = (c =? 0x5b)%N.
Proof. exact byte_facts. Qed.
Print Assumptions C06_counts_match.

(* ghost tags: the tagged constructor erases to Model/Sym.v's Expr::concat *)
Theorem C06_erasure : forall op args,
  match tconcat op args with
  | Ok e => sconcat (fst op) (map erase args) = Ok (erase e)
  | Panic s => sconcat (fst op) (map erase args) = Panic s
  | Err _ => False
  end.
Proof. exact erase_tconcat. Qed.
Print Assumptions C06_erasure.

(* the expression evaluated is the unique tree of the prefix encoding *)
Theorem C06_unique_reading : forall t, arity_ok t ->
  ttree_of (tencode t) = Some t /\ forall s rho, eval_texpr s rho (tencode t) = eval_tree s rho t.
Proof. intros t H. split; [now apply ttree_of_tencode|intros; now apply eval_texpr_tencode]. Qed.
Print Assumptions C06_unique_reading.

(* KNOWN FINDING (KnownClass_C06_cancun_gap): a block ending in TLOAD (0x5c; likewise BLOBHASH
   0x49, BLOBBASEFEE 0x4a, TSTORE 0x5d), which etk-ops/src/cancun.toml does not define, is
   annotated as terminating with no inputs, although execution pops a word, pushes the loaded
   value and falls through *)
Theorem C06_cancun_gap_refuted : exists off ops s rho st t tr a,
  KnownClass_C06_cancun_gap (map instr_of ops) /\
  ops <> [] /\ Forall wf_item ops /\ jmp_only_last cancun_jmp ops /\
  exec_block rho (Z.of_N off) (map instr_of ops) s = Done st t tr /\
  annotate off ops = Ok a /\
  ~ (map (eval_texpr s rho) (an_outputs a) ++ skipn (length (an_inputs a)) s = st /\
     exit_transfer s rho (an_exit a) = t).
Proof.
  exists 0%N, [mkitem 0 0x5c []], [7%Z], (fun _ => 42%Z).
  do 4 eexists. split; [reflexivity|]. split; [discriminate|]. split; [repeat constructor|].
  split; [constructor|]. split; [vm_compute; reflexivity|]. split; [vm_compute; reflexivity|].
  vm_compute. intros [A B]. discriminate.
Qed.
Print Assumptions C06_cancun_gap_refuted.

(* the bound on the offset is needed (accepted limitation): Expr::pc(pc as u16) truncates *)
Theorem C06_pc_bound_needed : exists off ops s rho st t tr a,
  ops <> [] /\ Forall wf_item ops /\ jmp_only_last cancun_jmp ops /\
  ~ KnownClass_C06_cancun_gap (map instr_of ops) /\
  exec_block rho (Z.of_N off) (map instr_of ops) s = Done st t tr /\
  annotate off ops = Ok a /\
  map (eval_texpr s rho) (an_outputs a) ++ skipn (length (an_inputs a)) s <> st.
Proof.
  exists 65536%N, [mkitem 65536 0x58 []], [], (fun _ => 0%Z).
  do 4 eexists. split; [discriminate|]. split; [repeat constructor|]. split; [constructor|].
  split; [vm_compute; discriminate|]. split; [vm_compute; reflexivity|]. split; [vm_compute; reflexivity|].
  vm_compute. discriminate.
Qed.
Print Assumptions C06_pc_bound_needed.

(* non-vacuity: swap2, call, dup1, sub, gas, gas, jumpi on a 20-word stack.  The two Gas()
   nodes print alike; their ghost tags (instructions 4 and 5) give them the values 1004 and 1005. *)
Example C06_example :
  let ops := map item_of_bytes [[0x91]; [0xf1]; [0x80]; [0x03]; [0x5a]; [0x5a]; [0x57]]%N in
  let s := map Z.of_nat (seq 1 20) in
  let rho := fun k => (1000 + Z.of_nat k)%Z in
  run_annot_block 5 ops =
    "blk(off=5,size=7,jt=0,in=[var1;var2;var3;var4;var5;var6;var7],out=[Sub(Call(var3,var2,var1,var4,var5,var6,var7),Call(var3,var2,var1,var4,var5,var6,var7))],exit=branch(Gas();Gas();12))"
  /\ exec_block rho 5 (map instr_of ops) s
     = Done [0; 8; 9; 10; 11; 12; 13; 14; 15; 16; 17; 18; 19; 20]%Z (CondJump 1004 1005 12)
            [(1%nat, 0xf1%N, [3; 2; 1; 4; 5; 6; 7]%Z); (4%nat, 0x5a%N, []); (5%nat, 0x5a%N, [])]
  /\ match annotate 5 ops with
     | Ok a => exit_transfer s rho (an_exit a) = CondJump 1004 1005 12
               /\ map (eval_texpr s rho) (an_outputs a) = [0]%Z
     | _ => False
     end.
Proof. vm_compute. auto. Qed.

Check C06_simulation : forall off ops s rho st t tr,
  ops <> [] -> Forall wf_item ops -> Forall (fun it => (i_code it < 256)%N) ops ->
  jmp_only_last cancun_jmp ops ->
  ~ KnownClass_C06_cancun_gap (map instr_of ops) ->
  (off + block_size (mkblock off ops) <= 65536)%N ->
  (Z.of_nat (length s) <= 65535)%Z ->
  exec_block rho (Z.of_N off) (map instr_of ops) s = Done st t tr ->
  exists a, annotate off ops = Ok a /\
    let n := length (an_inputs a) in
    an_inputs a = map Z.of_nat (seq 1 n) /\ (n <= length s)%nat /\
    map (eval_texpr s rho) (an_outputs a) ++ skipn n s = st /\
    exit_transfer s rho (an_exit a) = t /\
    Forall (expr_reads_ok s rho tr) (an_outputs a ++ exit_exprs (an_exit a)) /\
    an_offset a = off /\ an_size a = block_size (mkblock off ops) /\
    an_jt a = match ops with it :: _ => (i_code it =? 0x5b)%N | [] => false end.
Check C06_inputs_exact : forall off ops s rho st t tr,
  ops <> [] -> Forall wf_item ops -> Forall (fun it => (i_code it < 256)%N) ops ->
  jmp_only_last cancun_jmp ops ->
  ~ KnownClass_C06_cancun_gap (map instr_of ops) ->
  (off + block_size (mkblock off ops) <= 65536)%N ->
  (Z.of_nat (length s) <= 65535)%Z ->
  exec_block rho (Z.of_N off) (map instr_of ops) s = Done st t tr ->
  exists a, annotate off ops = Ok a /\
    let n := length (an_inputs a) in
    forall s2 rho2,
      ((length s2 < n)%nat -> exec_block rho2 (Z.of_N off) (map instr_of ops) s2 = Underflow) /\
      ((n <= length s2)%nat -> exists tr2,
         exec_block rho2 (Z.of_N off) (map instr_of ops) s2 =
           Done (map (eval_texpr s2 rho2) (an_outputs a) ++ skipn n s2)
                (exit_transfer s2 rho2 (an_exit a)) tr2 /\
         Forall (expr_reads_ok s2 rho2 tr2) (an_outputs a ++ exit_exprs (an_exit a))).
Check C06_counts_match : forall c, (c < 256)%N -> cancun_only c = false ->
  sk_ok c (shape_of c) (kind_of c) = true /\
  N.to_nat (r_pops (from_u8 cancun c)) = need (shape_of c) /\
  N.to_nat (r_pushes (from_u8 cancun c)) = shape_pushes (shape_of c) /\
  (match shape_of c with
   | ShTerm _ => r_exits (from_u8 cancun c)
   | ShJump | ShJumpI => r_jump (from_u8 cancun c)
   | _ => negb (r_exits (from_u8 cancun c))
   end = true) /\
  (r_extra (from_u8 cancun c) <= 32)%N /\
  (shape_of c = ShPush0 -> r_extra (from_u8 cancun c) = 0%N) /\
  r_jt (from_u8 cancun c) = (c =? 0x5b)%N.
Check C06_erasure : forall op args,
  match tconcat op args with
  | Ok e => sconcat (fst op) (map erase args) = Ok (erase e)
  | Panic s => sconcat (fst op) (map erase args) = Panic s
  | Err _ => False
  end.
Check C06_unique_reading : forall t, arity_ok t ->
  ttree_of (tencode t) = Some t /\ forall s rho, eval_texpr s rho (tencode t) = eval_tree s rho t.
Check C06_cancun_gap_refuted : exists off ops s rho st t tr a,
  KnownClass_C06_cancun_gap (map instr_of ops) /\
  ops <> [] /\ Forall wf_item ops /\ jmp_only_last cancun_jmp ops /\
  exec_block rho (Z.of_N off) (map instr_of ops) s = Done st t tr /\
  annotate off ops = Ok a /\
  ~ (map (eval_texpr s rho) (an_outputs a) ++ skipn (length (an_inputs a)) s = st /\
     exit_transfer s rho (an_exit a) = t).
Check C06_pc_bound_needed : exists off ops s rho st t tr a,
  ops <> [] /\ Forall wf_item ops /\ jmp_only_last cancun_jmp ops /\
  ~ KnownClass_C06_cancun_gap (map instr_of ops) /\
  exec_block rho (Z.of_N off) (map instr_of ops) s = Done st t tr /\
  annotate off ops = Ok a /\
  map (eval_texpr s rho) (an_outputs a) ++ skipn (length (an_inputs a)) s <> st.
