(* Props/C10.v -- Instruction macros behave as hygienic textual expansion. *)
From Verif Require Import Model.Base Model.Ops Model.Expr Model.Asm Proofs.AsmMacroProofs.
Open Scope Z_scope.

(* Feeding an invocation to the assembler is the same as feeding its textual expansion:
   whenever the (recursive, nested, parameter-forwarding) expansion of `a` is defined -- body
   with local labels renamed to names unique to this expansion, parameters replaced by the
   argument expressions in operands, %push operands and nested invocation arguments -- the
   assembler state after `a` equals the state after the macro-free op list, same success or
   same error.  (If the expansion itself is ill-formed -- unknown macro, wrong arity, too deep,
   a label defined twice in one body -- the invocation is rejected: the error cases of
   expand_op are exactly those of push_op.) *)
Theorem C10_invocation_is_expansion : forall macros fuel st a ops ctr',
  expand_op macros fuel (a_ctr st) a = Ok (ops, ctr') ->
  all_flat ops /\
  push_op macros fuel st a = rmap (set_ctr ctr') (push_flat macros ops st).
Proof. exact expand_push. Qed.
Print Assumptions C10_invocation_is_expansion.

(* hygiene of the operand rewriting *)
Theorem C10_local_labels_renamed_everywhere : forall old new e,
  tree_labels (replace_label old new e) = map (rename1 old new) (tree_labels e).
Proof. exact replace_label_everywhere. Qed.
Print Assumptions C10_local_labels_renamed_everywhere.

Theorem C10_arguments_keep_call_site_meaning : forall ren params p arg,
  lookup_last params p = Some arg -> rewrite_expr ren params (EVar p) = arg.
Proof. exact argument_not_renamed. Qed.
Print Assumptions C10_arguments_keep_call_site_meaning.

(* non-vacuity: nested invocation forwarding a parameter; local label `a` clashes with the
   argument label `a` of the call site *)
Example C10_example :
  let inner := ROp (AMacroDefI "inner" ["x"] [AOp 0x60 (Some (EVar "x"))]) in
  let outer := ROp (AMacroDefI "outer" ["y"]
                 [ALabel "a"; AOp 0x5b None; AOp 0x60 (Some (ELabel "a")); AMacro "inner" [EPlus (EVar "y") (ENum 1)]]) in
  assemble [inner; outer; ROp (AOp 0x58 None); ROp (AMacro "outer" [ELabel "a"]); ROp (ALabel "a"); ROp (AOp 0x5b None)]
  = Ok [0x58; 0x5b; 0x60; 0x01; 0x60; 0x07; 0x5b]%N.
Proof. vm_compute. reflexivity. Qed.

Check C10_invocation_is_expansion : forall macros fuel st a ops ctr',
  expand_op macros fuel (a_ctr st) a = Ok (ops, ctr') ->
  all_flat ops /\ push_op macros fuel st a = rmap (set_ctr ctr') (push_flat macros ops st).
Check C10_local_labels_renamed_everywhere : forall old new e,
  tree_labels (replace_label old new e) = map (rename1 old new) (tree_labels e).
Check C10_arguments_keep_call_site_meaning : forall ren params p arg,
  lookup_last params p = Some arg -> rewrite_expr ren params (EVar p) = arg.
