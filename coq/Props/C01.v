(* Props/C01.v -- Label values equal the real byte offsets of the labelled instructions. *)
From Verif Require Import Model.Base Model.Ops Model.Expr Model.Asm Proofs.AsmLayoutProofs.
Open Scope Z_scope.

(* For every program that assembles successfully (any labels, fixed and auto-sized pushes,
   macros, nested scopes): the scope's flat item list `items`, the widths `w` the layout
   decided and the label table `pos` are such that the output is exactly the emission of
   `items` under (pos, w), and for EVERY label l -- wherever it stands -- the value that
   every operand evaluation uses for l (lenv pos l) is the number of bytes emitted for the
   items before the label, i.e. the offset of the first instruction that follows it. *)
Theorem C01_label_offsets : forall ops bytes,
  assemble ops = Ok bytes ->
  exists macros items w pos,
    declare_macros ops [] = Ok macros /\
    layout macros items = Ok (w, pos) /\
    emit macros (lenv pos) items w = Ok bytes /\
    NoDup (labels_of items) /\
    forall pre l post, items = pre ++ ILabel l :: post ->
      exists b1 b2,
        bytes = b1 ++ b2 /\
        emit macros (lenv pos) pre w = Ok b1 /\
        emit macros (lenv pos) post (skipn (count_push pre) w) = Ok b2 /\
        lenv pos l = Some (Z.of_nat (length b1)).
Proof. exact assemble_label_offsets. Qed.
Print Assumptions C01_label_offsets.

(* the same for any item list on which layout and emission succeed (phases 2 and 3 alone) *)
Theorem C01_layout_consistent : forall macros items w pos bytes,
  layout macros items = Ok (w, pos) ->
  emit macros (lenv pos) items w = Ok bytes ->
  NoDup (labels_of items) ->
  forall pre l post, items = pre ++ ILabel l :: post ->
  exists b1 b2,
    bytes = b1 ++ b2 /\
    emit macros (lenv pos) pre w = Ok b1 /\
    emit macros (lenv pos) post (skipn (count_push pre) w) = Ok b2 /\
    lenv pos l = Some (Z.of_nat (length b1)).
Proof. exact layout_consistent. Qed.
Print Assumptions C01_layout_consistent.

(* so a jump to a labelled jumpdest lands on that jumpdest: the byte at the label's offset *)
Theorem C01_jumpdest : forall macros labels post ws b2,
  emit macros labels (IOp 0x5b%N None :: post) ws = Ok b2 -> hd 0%N b2 = 0x5b%N.
Proof. exact label_jumpdest. Qed.
Print Assumptions C01_jumpdest.

(* non-vacuity: the layout that defeated the single shifting pass (D1 of DESIGN.md 5b, scaled):
   %push(end); 253 x pc; lbl: jumpdest; %push(lbl); end: jumpdest *)
Example C01_example :
  let prog := [ROp (APush (ELabel "end"))] ++ repeat (ROp (AOp 0x58 None)) 253 ++
              [ROp (ALabel "lbl"); ROp (AOp 0x5b None); ROp (APush (ELabel "lbl"));
               ROp (ALabel "end"); ROp (AOp 0x5b None)] in
  match assemble prog with
  | Ok bs => firstn 3 bs = [0x61; 0x01; 0x04]%N /\ nth 260 bs 0%N = 0x5b%N /\ nth 256 bs 0%N = 0x5b%N
             /\ firstn 3 (skipn 257 bs) = [0x61; 0x01; 0x00]%N
  | _ => False
  end.
Proof. vm_compute. auto. Qed.

Check C01_label_offsets : forall ops bytes,
  assemble ops = Ok bytes ->
  exists macros items w pos,
    declare_macros ops [] = Ok macros /\ layout macros items = Ok (w, pos) /\
    emit macros (lenv pos) items w = Ok bytes /\ NoDup (labels_of items) /\
    forall pre l post, items = pre ++ ILabel l :: post ->
      exists b1 b2, bytes = b1 ++ b2 /\ emit macros (lenv pos) pre w = Ok b1 /\
        emit macros (lenv pos) post (skipn (count_push pre) w) = Ok b2 /\
        lenv pos l = Some (Z.of_nat (length b1)).
Check C01_layout_consistent : forall macros items w pos bytes,
  layout macros items = Ok (w, pos) -> emit macros (lenv pos) items w = Ok bytes ->
  NoDup (labels_of items) ->
  forall pre l post, items = pre ++ ILabel l :: post ->
  exists b1 b2, bytes = b1 ++ b2 /\ emit macros (lenv pos) pre w = Ok b1 /\
    emit macros (lenv pos) post (skipn (count_push pre) w) = Ok b2 /\
    lenv pos l = Some (Z.of_nat (length b1)).
Check C01_jumpdest : forall macros labels post ws b2,
  emit macros labels (IOp 0x5b%N None :: post) ws = Ok b2 -> hd 0%N b2 = 0x5b%N.
