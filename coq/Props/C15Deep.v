(* Props/C15Deep.v -- KNOWN FINDING class=deep-block: the bound on the number of instructions of
   a block in C15_pipeline_total is needed.  10923 consecutive LOG4 instructions (10923 bytes,
   within the 24576-byte code-size limit) form one block that pops 65538 entry-stack words;
   the annotator numbers the entry-stack variables in a u16 and panics with
   "attempt to add with overflow" (release builds without overflow checks: the counter wraps
   and Var::with_id(0) unwraps a failed NonZeroU16 conversion). *)
From Verif Require Import Model.Base Model.Ops Model.Disasm Model.Blocks Model.Sym Model.Annot
  Spec.SmtBv Model.Z3Tr Model.Cfg Model.Pipeline.
Open Scope N_scope.

Definition deep_block : list N := repeat 0xa4 (N.to_nat 10923).

Theorem C15_deep_block_refuted : exists code,
  Forall (fun b => b < 256) code /\ N.of_nat (length code) <= 24576 /\
  forall solver, pipeline solver code = Panic "attempt to add with overflow".
Proof.
  exists deep_block. split.
  - unfold deep_block. apply Forall_forall. intros x Hx. apply repeat_spec in Hx. subst. reflexivity.
  - split; [unfold deep_block; rewrite repeat_length; vm_compute; discriminate|].
    intros solver. unfold pipeline.
    assert (E : annotate_all (blocks_of deep_block) = Panic "attempt to add with overflow")
      by (vm_compute; reflexivity).
    rewrite E. reflexivity.
Qed.
Print Assumptions C15_deep_block_refuted.

Check C15_deep_block_refuted : exists code,
  Forall (fun b => b < 256) code /\ N.of_nat (length code) <= 24576 /\
  forall solver, pipeline solver code = Panic "attempt to add with overflow".
