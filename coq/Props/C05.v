(* Props/C05.v -- The refined control-flow graph over-approximates every real execution.

   Specification (trusted, hand-written): Spec/EvmExec.v (execution of a block's instructions on a
   concrete stack; every state-dependent result comes from an oracle rho and is recorded in a
   trace), Spec/CfgSpec.v (a real run has ONE environment and calldata: [consistent]; where a
   transfer leads: [successor]), Spec/SmtBv.v (meaning of the solver's formulas) and the
   hypothesis [sound] on the solver: it answers Unsat only for unsatisfiable assertion sets.
   Model: Model/Pipeline.v (Disassembler, Separator, Annotator, Z3 translation,
   ControlFlowGraph::new, refine_shallow).

   For ANY bytecode (<= 65536 bytes; the EVM limit is 24576), ANY basic block of it, ANY entry
   stack (<= 65535 words; the EVM limit is 1024), ANY world: if executing the block does not
   underflow, the transfer it ends with -- jump or branch to a JUMPDEST-headed block, jump to a
   non-jumpdest (bad jump), halt (stop, return, revert, selfdestruct, invalid/undefined opcode),
   fall into the next block, or running off the end -- is an edge of the graph as first built
   AND of the refined graph.  Gas and the 1024-slot limit are not modelled ("does not halt
   through stack or gas exhaustion"): an execution that stops early for those takes no edge.
   Excluded: blocks containing BLOBHASH/BLOBBASEFEE/TLOAD/TSTORE, which the etk table lacks
   (KNOWN FINDING KnownClass_C06_cancun_gap; C05_cancun_gap_refuted). *)
From Verif Require Import Model.Base Model.Ops Model.Disasm Model.Blocks Model.Sym Model.SymTree
  Model.Annot Spec.EvmSem Spec.EvmExec Spec.SmtBv Spec.SymEval Spec.CfgSpec Model.Z3Tr Model.Cfg
  Model.Pipeline Proofs.CfgProofs Proofs.PipelineProofs Proofs.CfgSoundProofs Proofs.C05Proofs.
Open Scope Z_scope.

Theorem C05_executed_transfer_is_an_edge : forall solver code g,
  sound solver ->
  Forall (fun b => (b < 256)%N) code -> (N.of_nat (length code) <= 65536)%N ->
  pipeline solver code = Ok g ->
  forall blk, In blk (blocks_of code) ->
  ~ KnownClass_C06_cancun_gap (map instr_of (b_ops blk)) ->
  forall Wd s rho st t tr,
    words s rho -> Z.of_nat (length s) <= 65535 ->
    exec_block rho (Z.of_N (b_off blk)) (map instr_of (b_ops blk)) s = Done st t tr ->
    consistent Wd rho tr ->
    let e := (NBlock (Z.of_N (b_off blk)),
              node_of (successor (block_heads code) (jumpdest_heads code) t)) in
    (exists g0, pipeline_initial code = Ok g0 /\ In e (g_edges g0)) /\ In e (g_edges g).
Proof.
  intros solver code g Hs Hb Hl Hp. exact (executed_transfer_is_an_edge solver Hs code Hb Hl g Hp).
Qed.
Print Assumptions C05_executed_transfer_is_an_edge.

(* "refinement removes only edges that no execution can take" *)
Theorem C05_removed_edges_are_infeasible : forall solver code g g0 blk n,
  sound solver ->
  Forall (fun b => (b < 256)%N) code -> (N.of_nat (length code) <= 65536)%N ->
  pipeline_initial code = Ok g0 -> pipeline solver code = Ok g ->
  In blk (blocks_of code) -> ~ KnownClass_C06_cancun_gap (map instr_of (b_ops blk)) ->
  In (NBlock (Z.of_N (b_off blk)), n) (g_edges g0) ->
  ~ In (NBlock (Z.of_N (b_off blk)), n) (g_edges g) ->
  forall Wd s rho st t tr,
    words s rho -> Z.of_nat (length s) <= 65535 -> consistent Wd rho tr ->
    exec_block rho (Z.of_N (b_off blk)) (map instr_of (b_ops blk)) s = Done st t tr ->
    node_of (successor (block_heads code) (jumpdest_heads code) t) <> n.
Proof.
  intros solver code g g0 blk n Hs Hb Hl _ Hp Hblk Hgap _ Hnot Wd s rho st t tr Hw Hlen Hc Hex E.
  destruct (executed_transfer_is_an_edge solver Hs code Hb Hl g Hp blk Hblk Hgap Wd s rho st t tr Hw Hlen Hex Hc) as [_ I].
  rewrite E in I. contradiction.
Qed.
Print Assumptions C05_removed_edges_are_infeasible.

(* the jumpdest-headed blocks are exactly the JUMPDEST instructions of the decoded code, i.e. the
   valid jump destinations: a jump anywhere else leads to <bad-jump> *)
Theorem C05_jumpdests : forall code d, Forall (fun b => (b < 256)%N) code ->
  In d (jumpdest_heads code) <->
  exists it, In it (items_of code) /\ i_code it = 0x5b%N /\ Z.of_N (i_off it) = d.
Proof. exact jumpdest_heads_spec. Qed.
Print Assumptions C05_jumpdests.

(* the graph-level statement, for any annotated blocks: under every interpretation M of the
   solver's symbols, the edge to the successor of the transfer the exit denotes under M is in the
   initial graph and survives refinement *)
Theorem C05_taken_edge_kept : forall solver blocks g g',
  sound solver -> cfg_new blocks = Ok g -> refine solver g = Ok g' ->
  (forall b, In b (g_blocks g) -> 0 <= ab_off b < 2 ^ 256) ->
  (forall b c t f, In b (g_blocks g) -> ab_exit b = ABranch c t f -> 0 <= f < 2 ^ 256) ->
  forall b z M, In b (g_blocks g) -> exit_to_z3 (ab_exit b) = Ok z ->
    let e := (NBlock (ab_off b),
              node_of (successor (offsets (g_blocks g)) (jt_offsets (g_blocks g)) (ztransfer M z))) in
    In e (g_edges g) /\ In e (g_edges g').
Proof. intros solver blocks g g' Hs Hn Hr Ho Hf. exact (taken_edge_kept solver Hs blocks g g' Hn Hr Ho Hf). Qed.
Print Assumptions C05_taken_edge_kept.

(* the translated exit denotes the executed transfer under the interpretation induced by the run *)
Theorem C05_exit_denotes : forall Wd s rho tr x t,
  consistent Wd rho tr -> words s rho ->
  Forall (expr_reads_ok s rho tr) (exit_exprs x) ->
  Forall (fun e => Forall (fun ts => wf_sym (fst ts) = true) e) (exit_exprs x) ->
  exit_transfer s rho x = t ->
  exists M z, exit_to_z3 (aexit_of x) = Ok z /\ ztransfer M z = t.
Proof. exact exit_denotes. Qed.
Print Assumptions C05_exit_denotes.

(* ---- non-vacuity: jumpdest; push1 0; calldataload; push1 8; jumpi / stop / jumpdest; stop ---- *)
Definition ex_code : list N := [0x5b; 0x60; 0x00; 0x35; 0x60; 0x08; 0x57; 0x00; 0x5b; 0x00]%N.
Definition ex_world (v : Z) : world := mkWorld (fun _ => 0) (fun _ => v) (fun _ => 0).

Example C05_example :
  sound (fun _ => false) /\
  (exists blk, nth_error (blocks_of ex_code) 0 = Some blk /\ b_off blk = 0%N /\
     ~ KnownClass_C06_cancun_gap (map instr_of (b_ops blk)) /\
     (* calldataload(0) = 1: the branch is taken to the jumpdest at 8 *)
     exec_block (fun _ => 1) 0 (map instr_of (b_ops blk)) [] = Done [] (CondJump 1 8 7) [(2%nat, 0x35%N, [0])] /\
     consistent (ex_world 1) (fun _ => 1) [(2%nat, 0x35%N, [0])] /\
     successor (block_heads ex_code) (jumpdest_heads ex_code) (CondJump 1 8 7) = TgBlock 8 /\
     (* calldataload(0) = 0: fall into the block at 7 *)
     exec_block (fun _ => 0) 0 (map instr_of (b_ops blk)) [] = Done [] (CondJump 0 8 7) [(2%nat, 0x35%N, [0])] /\
     successor (block_heads ex_code) (jumpdest_heads ex_code) (CondJump 0 8 7) = TgBlock 7) /\
  exists g, pipeline (fun _ => false) ex_code = Ok g /\
    In (NBlock 0, NBlock 8) (g_edges g) /\ In (NBlock 0, NBlock 7) (g_edges g).
Proof.
  split; [intros fs H; discriminate|]. split.
  - eexists. split; [vm_compute; reflexivity|]. split; [reflexivity|]. split; [vm_compute; discriminate|].
    split; [vm_compute; reflexivity|]. split.
    + intros k c args [H|[]]. inversion H; subst. split; [intros X; discriminate X|]. split; [reflexivity|intros X; discriminate X].
    + split; [vm_compute; reflexivity|]. split; vm_compute; reflexivity.
  - eexists. split; [vm_compute; reflexivity|]. split; cbn; auto 10.
Qed.

(* KNOWN FINDING (KnownClass_C06_cancun_gap): push1 0; tload; stop -- etk cuts the block at the
   byte 0x5c it does not know and gives it the single edge to <terminate>; Cancun execution loads
   a word and falls into the block at offset 3 *)
Theorem C05_cancun_gap_refuted : exists code blk g Wd s rho st t tr,
  Forall (fun b => (b < 256)%N) code /\ pipeline (fun _ => false) code = Ok g /\
  In blk (blocks_of code) /\ KnownClass_C06_cancun_gap (map instr_of (b_ops blk)) /\
  words s rho /\ exec_block rho (Z.of_N (b_off blk)) (map instr_of (b_ops blk)) s = Done st t tr /\
  consistent Wd rho tr /\
  ~ In (NBlock (Z.of_N (b_off blk)), node_of (successor (block_heads code) (jumpdest_heads code) t)) (g_edges g).
Proof.
  exists [0x60; 0x00; 0x5c; 0x00]%N. exists (mkblock 0 [mkitem 0 0x60 [0%N]; mkitem 2 0x5c []]).
  eexists. exists (ex_world 0), [], (fun _ => 0).
  do 3 eexists. split; [repeat constructor|]. split; [vm_compute; reflexivity|].
  split; [vm_compute; left; reflexivity|]. split; [vm_compute; reflexivity|].
  split; [split; [constructor|intros k; vm_compute; split; [discriminate|reflexivity]]|].
  split; [vm_compute; reflexivity|]. split.
  - intros k c args [H|[]]. inversion H; subst. split; [intros X; discriminate X|]. split; intros X; discriminate X.
  - vm_compute. intros [H|[H|[]]]; discriminate H.
Qed.
Print Assumptions C05_cancun_gap_refuted.

Check C05_executed_transfer_is_an_edge : forall solver code g,
  sound solver ->
  Forall (fun b => (b < 256)%N) code -> (N.of_nat (length code) <= 65536)%N ->
  pipeline solver code = Ok g ->
  forall blk, In blk (blocks_of code) ->
  ~ KnownClass_C06_cancun_gap (map instr_of (b_ops blk)) ->
  forall Wd s rho st t tr,
    words s rho -> Z.of_nat (length s) <= 65535 ->
    exec_block rho (Z.of_N (b_off blk)) (map instr_of (b_ops blk)) s = Done st t tr ->
    consistent Wd rho tr ->
    let e := (NBlock (Z.of_N (b_off blk)),
              node_of (successor (block_heads code) (jumpdest_heads code) t)) in
    (exists g0, pipeline_initial code = Ok g0 /\ In e (g_edges g0)) /\ In e (g_edges g).
Check C05_removed_edges_are_infeasible : forall solver code g g0 blk n,
  sound solver ->
  Forall (fun b => (b < 256)%N) code -> (N.of_nat (length code) <= 65536)%N ->
  pipeline_initial code = Ok g0 -> pipeline solver code = Ok g ->
  In blk (blocks_of code) -> ~ KnownClass_C06_cancun_gap (map instr_of (b_ops blk)) ->
  In (NBlock (Z.of_N (b_off blk)), n) (g_edges g0) ->
  ~ In (NBlock (Z.of_N (b_off blk)), n) (g_edges g) ->
  forall Wd s rho st t tr,
    words s rho -> Z.of_nat (length s) <= 65535 -> consistent Wd rho tr ->
    exec_block rho (Z.of_N (b_off blk)) (map instr_of (b_ops blk)) s = Done st t tr ->
    node_of (successor (block_heads code) (jumpdest_heads code) t) <> n.
Check C05_jumpdests : forall code d, Forall (fun b => (b < 256)%N) code ->
  In d (jumpdest_heads code) <->
  exists it, In it (items_of code) /\ i_code it = 0x5b%N /\ Z.of_N (i_off it) = d.
Check C05_taken_edge_kept : forall solver blocks g g',
  sound solver -> cfg_new blocks = Ok g -> refine solver g = Ok g' ->
  (forall b, In b (g_blocks g) -> 0 <= ab_off b < 2 ^ 256) ->
  (forall b c t f, In b (g_blocks g) -> ab_exit b = ABranch c t f -> 0 <= f < 2 ^ 256) ->
  forall b z M, In b (g_blocks g) -> exit_to_z3 (ab_exit b) = Ok z ->
    let e := (NBlock (ab_off b),
              node_of (successor (offsets (g_blocks g)) (jt_offsets (g_blocks g)) (ztransfer M z))) in
    In e (g_edges g) /\ In e (g_edges g').
Check C05_exit_denotes : forall Wd s rho tr x t,
  consistent Wd rho tr -> words s rho ->
  Forall (expr_reads_ok s rho tr) (exit_exprs x) ->
  Forall (fun e => Forall (fun ts => wf_sym (fst ts) = true) e) (exit_exprs x) ->
  exit_transfer s rho x = t ->
  exists M z, exit_to_z3 (aexit_of x) = Ok z /\ ztransfer M z = t.
Check C05_cancun_gap_refuted : exists code blk g Wd s rho st t tr,
  Forall (fun b => (b < 256)%N) code /\ pipeline (fun _ => false) code = Ok g /\
  In blk (blocks_of code) /\ KnownClass_C06_cancun_gap (map instr_of (b_ops blk)) /\
  words s rho /\ exec_block rho (Z.of_N (b_off blk)) (map instr_of (b_ops blk)) s = Done st t tr /\
  consistent Wd rho tr /\
  ~ In (NBlock (Z.of_N (b_off blk)), node_of (successor (block_heads code) (jumpdest_heads code) t)) (g_edges g).
