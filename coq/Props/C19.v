(* Props/C19.v -- Hex input and output adapters are exact for every chunking.
   Model: Model/Hex.v (HexRead::read with its hexbuffer, prefix check, remainder; HexWrite::write; write_all).
   A text is `list N` (bytes), a fragmentation is the list of sizes the underlying reader hands out
   (clamped to >= 1, then "as much as asked"), `bufsz i` is the size of the caller's buffer on the i-th call.
   No statement below had to be weakened: no defect of the Rust code was found for this property. *)
From Verif Require Import Model.Base Model.Hex Proofs.HexProofs.

(* ---------------------------------------------------------------------- *)
(* READER                                                                  *)
(* ---------------------------------------------------------------------- *)

(* (a) well-formed text: optional 0x, pairs of hex digits of either case denoting bs, optionally ONE
   trailing whitespace character.  Every fragment schedule, every sequence of buffer sizes >= 1:
   the bytes delivered until the first Ok(0) are exactly bs, and Ok(0) is reached
   (no error, no panic, no livelock). *)
Theorem C19_reader_wellformed : forall bs d pre ws frags bufsz,
  hexpairs d bs ->
  (pre = [] \/ pre = [48; 120]%N) ->
  (ws = [] \/ exists w, ws = [w] /\ is_ws w = true) ->
  (forall i, 1 <= bufsz i) ->
  exists calls, read_to_end (pre ++ d ++ ws) frags bufsz = (bs, EndEof, calls).
Proof.
  intros bs d pre ws frags bufsz Hd Hpre Hws Hb. apply reader_wellformed; [|exact Hb].
  exists pre, d, ws. auto.
Qed.
Print Assumptions C19_reader_wellformed.

(* the digits accepted are exactly 0-9, a-f, A-F with their values; both renderers of Model/Base.v
   (lower and upper case) are inverted *)
Theorem C19_hex_digits : forall c v,
  (hexval c = Some v <->
   ((48 <= c <= 57 /\ v = c - 48) \/ (97 <= c <= 102 /\ v = c - 87) \/ (65 <= c <= 70 /\ v = c - 55))%N) /\
  ((v < 16)%N -> hexval (N_of_ascii (hex_lower_digit v)) = Some v /\ hexval (N_of_ascii (hex_upper_digit v)) = Some v).
Proof. intros c v. split; [apply hexval_iff|apply hexval_lower_upper]. Qed.
Print Assumptions C19_hex_digits.

(* the total classification used by the next theorems: `spec_text` computes (bytes, well formed?) and
   accepts exactly the well-formed texts *)
Theorem C19_wellformed_iff_spec : forall text bs, wellformed text bs <-> spec_text text = (bs, true).
Proof. exact wellformed_spec. Qed.
Print Assumptions C19_wellformed_iff_spec.

(* (a)+(b) in one statement, for EVERY text: all the bytes and Ok(0) when the text is well formed, otherwise
   an InvalidData error after a prefix of the bytes of its well-formed part -- never wrong bytes *)
Theorem C19_reader_exact : forall text frags bufsz, (forall i, 1 <= bufsz i) ->
  let res := read_to_end text frags bufsz in
  if snd (spec_text text)
  then fst (fst res) = fst (spec_text text) /\ snd (fst res) = EndEof
  else (exists k, fst (fst res) = firstn k (fst (spec_text text))) /\
       exists e, snd (fst res) = EndErr e /\ e_kind e = "InvalidData".
Proof. exact read_to_end_spec. Qed.
Print Assumptions C19_reader_exact.

(* (b) every text that is NOT well formed: the stream ends in an error, and the bytes delivered before it
   are the decoding of an initial segment of the text (after the optional prefix) *)
Theorem C19_reader_malformed : forall text frags bufsz,
  (forall bs, ~ wellformed text bs) -> (forall i, 1 <= bufsz i) ->
  exists out e calls, read_to_end text frags bufsz = (out, EndErr e, calls) /\ e_kind e = "InvalidData" /\
    exists pre d rest, text = pre ++ d ++ rest /\ (pre = [] \/ pre = [48; 120]%N) /\ hexpairs d out.
Proof. exact reader_malformed. Qed.
Print Assumptions C19_reader_malformed.

(* the malformed classes named by the property are indeed not well formed:
   an odd number of digits (with or without prefix / trailing whitespace) ... *)
Theorem C19_odd_digits_malformed : forall pre d bs c v ws,
  (pre = [] \/ pre = [48; 120]%N) -> hexpairs d bs -> hexval c = Some v ->
  (ws = [] \/ exists w, ws = [w] /\ is_ws w = true) ->
  forall bs', ~ wellformed (pre ++ d ++ c :: ws) bs'.
Proof. exact odd_digits_malformed. Qed.
Print Assumptions C19_odd_digits_malformed.

(* ... and a non-hex character anywhere after the prefix, unless it is a whitespace in last position
   (this covers inner whitespace and two trailing whitespace characters) *)
Theorem C19_nonhex_malformed : forall text s1 c s2,
  strip_prefix text = s1 ++ c :: s2 -> hexval c = None -> (s2 <> [] \/ is_ws c = false) ->
  forall bs, ~ wellformed text bs.
Proof. exact nonhex_malformed. Qed.
Print Assumptions C19_nonhex_malformed.

(* one call, any reachable state: no panic (no slice out of range in hexbuffer or in the caller's buffer),
   at most n bytes, and the denotation of the stream is split correctly *)
Theorem C19_reader_each_call : forall st r n, 1 <= n -> hr_inv st ->
  let T := remchars (remainder st) ++ r_text r in
  let res := hr_read st r n in
  match fst (fst res) with
  | Ok out =>
      (out = [] /\ lspec (first_read st) T = ([], true)) \/
      (out <> [] /\ length out <= n /\ first_read (snd (fst res)) = false /\
       let T' := remchars (remainder (snd (fst res))) ++ r_text (snd res) in
       lspec (first_read st) T = (out ++ fst (dec_stream T'), snd (dec_stream T')) /\
       length T' < length T)
  | Err e => snd (lspec (first_read st) T) = false /\ e_kind e = "InvalidData"
  | Panic _ => False
  end.
Proof. exact hr_read_spec. Qed.
Print Assumptions C19_reader_each_call.

(* ---------------------------------------------------------------------- *)
(* WRITER                                                                  *)
(* ---------------------------------------------------------------------- *)

(* (c) one write call, the sink accepting k of the 2*len characters offered: the sink received exactly
   the first k characters of the lowercase hex; k even => Ok(k/2) and those characters are the hex of
   the bytes reported written; k odd => Err(Other) *)
Theorem C19_writer_one_call : forall s buf,
  let k := sink_accepts s (2 * length buf) in
  k <= 2 * length buf /\
  s_got (snd (hw_write s buf)) = s_got s ++ firstn k (hex_encode buf) /\
  s_accept (snd (hw_write s buf)) = tl (s_accept s) /\
  (forall m, k = 2 * m ->
     fst (hw_write s buf) = Ok m /\ firstn k (hex_encode buf) = hex_encode (firstn m buf)) /\
  (forall m, k = 2 * m + 1 -> fst (hw_write s buf) = Err (mkErr "Other" [])).
Proof. exact hw_write_spec. Qed.
Print Assumptions C19_writer_one_call.

(* hex_encode is the lowercase hexadecimal rendering (the independent hex_bytes of Model/Base.v) *)
Theorem C19_encode_is_lowercase_hex : forall bs, Forall (fun b => b < 256)%N bs ->
  string_of_list_ascii (map ascii_of_N (hex_encode bs)) = hex_bytes bs.
Proof. exact hex_encode_lowercase. Qed.
Print Assumptions C19_encode_is_lowercase_hex.

(* write_all, sink accepting every write whole or in even non-empty pieces: Ok and exactly hex(buf) *)
Theorem C19_write_all_even_sink : forall s buf, even_sink (s_accept s) ->
  exists s', write_all s buf = (Ok tt, s') /\ s_got s' = s_got s ++ hex_encode buf.
Proof. exact write_all_even_sink. Qed.
Print Assumptions C19_write_all_even_sink.

(* write_all, ANY short-write behaviour: success only with exactly hex(buf) in the sink; otherwise an error
   (never a panic, never a silent misalignment): Other right after an odd short write, WriteZero after an
   empty one, the sink then holding the hex of m whole bytes (plus the j characters of the odd write) *)
Theorem C19_write_all_any_sink : forall s buf,
  match write_all s buf with
  | (Ok _, s') => s_got s' = s_got s ++ hex_encode buf
  | (Err e, s') =>
      exists m j, m <= length buf /\
        s_got s' = s_got s ++ hex_encode (firstn m buf) ++ firstn j (hex_encode (skipn m buf)) /\
        ((e = mkErr "Other" [] /\ Nat.even j = false) \/ (e = mkErr "WriteZero" [] /\ j = 0 /\ m < length buf))
  | (Panic _, _) => False
  end.
Proof. exact write_all_any_sink. Qed.
Print Assumptions C19_write_all_any_sink.

(* ---------------------------------------------------------------------- *)
(* ROUND TRIP                                                              *)
(* ---------------------------------------------------------------------- *)

(* (d) what write_all handed to an even sink, read back under any fragmentation and any buffer sizes *)
Theorem C19_roundtrip : forall bs accept frags bufsz,
  Forall (fun b => b < 256)%N bs -> even_sink accept -> (forall i, 1 <= bufsz i) ->
  exists s' calls, write_all (mksink [] accept) bs = (Ok tt, s') /\
                   read_to_end (s_got s') frags bufsz = (bs, EndEof, calls).
Proof. exact roundtrip. Qed.
Print Assumptions C19_roundtrip.

(* ---------------------------------------------------------------------- *)
(* non-vacuity                                                             *)
(* ---------------------------------------------------------------------- *)

(* "0xAbcD1f\n": split inside the prefix and inside digit pairs, buffer sizes 1,2,1,2,... *)
Example C19_example_wellformed :
  let text := [48; 120; 65; 98; 99; 68; 49; 102; 10]%N in
  wellformed text [171; 205; 31]%N /\
  read_to_end text [1; 2; 1; 3] (fun i => 1 + Nat.modulo i 2) = ([171; 205; 31]%N, EndEof, 3) /\
  read_to_end text [] (fun _ => 1) = ([171; 205; 31]%N, EndEof, 4) /\
  read_to_end text [1; 1; 1; 1; 1; 1; 1; 1; 1] (fun _ => 64) = ([171; 205; 31]%N, EndEof, 4).
Proof.
  split; [|vm_compute; auto].
  exists [48; 120]%N, [65; 98; 99; 68; 49; 102]%N, [10]%N. split; [reflexivity|]. split; [now right|].
  split; [|right; exists 10%N; split; reflexivity].
  apply (hp_cons 65 98 10 11)%N; [reflexivity|reflexivity|].
  apply (hp_cons 99 68 12 13)%N; [reflexivity|reflexivity|].
  apply (hp_cons 49 102 1 15)%N; [reflexivity|reflexivity|constructor].
Qed.

(* the trailing whitespace lands in `remainder`; the prefix is consumed with a 2-character hexbuffer *)
Example C19_example_corner_cases :
  read_to_end [97; 98; 10]%N [3] (fun _ => 2) = ([171]%N, EndEof, 2) /\
  read_to_end [48; 120; 97; 98]%N [1; 1; 1; 1] (fun _ => 1) = ([171]%N, EndEof, 2) /\
  read_to_end [48; 120]%N [] (fun _ => 1) = ([], EndEof, 1) /\
  read_to_end [160]%N [] (fun _ => 3) = ([], EndEof, 1).
Proof. vm_compute. auto. Qed.

(* malformed: odd count, non-hex character after good bytes, inner whitespace, CR LF *)
Example C19_example_malformed :
  read_to_end [97; 98; 99]%N [] (fun _ => 1)
    = ([171]%N, EndErr (mkErr "InvalidData" ["OddLength"]), 2) /\
  read_to_end [97; 98; 103; 48]%N [1; 1] (fun _ => 1)
    = ([171]%N, EndErr (mkErr "InvalidData" ["InvalidHexCharacter"; "103"; "0"]), 2) /\
  read_to_end [97; 98; 10; 99; 100]%N [] (fun _ => 8)
    = ([], EndErr (mkErr "InvalidData" ["InvalidHexCharacter"; "10"; "2"]), 1) /\
  read_to_end [97; 98; 13; 10]%N [] (fun _ => 1)
    = ([171]%N, EndErr (mkErr "InvalidData" ["InvalidHexCharacter"; "13"; "0"]), 2) /\
  (forall bs, ~ wellformed [97; 98; 99]%N bs).
Proof.
  repeat split; try (vm_compute; reflexivity).
  apply (C19_odd_digits_malformed [] [97; 98]%N [171]%N 99%N 12%N []); [now left| |reflexivity|now left].
  apply (hp_cons 97 98 10 11)%N; [reflexivity|reflexivity|constructor].
Qed.

Example C19_example_writer :
  hw_write (mksink [] [3]) [171; 205]%N = (Err (mkErr "Other" []), mksink [97; 98; 99]%N []) /\
  hw_write (mksink [] [2]) [171; 205]%N = (Ok 1, mksink [97; 98]%N []) /\
  write_all (mksink [] [2; 4]) [171; 205; 31]%N = (Ok tt, mksink [97; 98; 99; 100; 49; 102]%N []) /\
  write_all (mksink [] [2; 0]) [171; 205]%N = (Err (mkErr "WriteZero" []), mksink [97; 98]%N []) /\
  even_sink [2; 4].
Proof. repeat split; try (vm_compute; reflexivity). repeat constructor. Qed.

Example C19_example_roundtrip :
  exists s', write_all (mksink [] [2; 6]) [0; 255; 16; 171]%N = (Ok tt, s') /\
             read_to_end (s_got s') [1; 2; 3] (fun i => 1 + Nat.modulo i 3) = ([0; 255; 16; 171]%N, EndEof, 4).
Proof. eexists. split; vm_compute; reflexivity. Qed.

(* ---------------------------------------------------------------------- *)
(* statement pins                                                          *)
(* ---------------------------------------------------------------------- *)
Check C19_reader_wellformed : forall bs d pre ws frags bufsz,
  hexpairs d bs -> (pre = [] \/ pre = [48; 120]%N) -> (ws = [] \/ exists w, ws = [w] /\ is_ws w = true) ->
  (forall i, 1 <= bufsz i) ->
  exists calls, read_to_end (pre ++ d ++ ws) frags bufsz = (bs, EndEof, calls).
Check C19_hex_digits : forall c v,
  (hexval c = Some v <->
   ((48 <= c <= 57 /\ v = c - 48) \/ (97 <= c <= 102 /\ v = c - 87) \/ (65 <= c <= 70 /\ v = c - 55))%N) /\
  ((v < 16)%N -> hexval (N_of_ascii (hex_lower_digit v)) = Some v /\ hexval (N_of_ascii (hex_upper_digit v)) = Some v).
Check C19_wellformed_iff_spec : forall text bs, wellformed text bs <-> spec_text text = (bs, true).
Check C19_reader_exact : forall text frags bufsz, (forall i, 1 <= bufsz i) ->
  let res := read_to_end text frags bufsz in
  if snd (spec_text text)
  then fst (fst res) = fst (spec_text text) /\ snd (fst res) = EndEof
  else (exists k, fst (fst res) = firstn k (fst (spec_text text))) /\
       exists e, snd (fst res) = EndErr e /\ e_kind e = "InvalidData".
Check C19_reader_malformed : forall text frags bufsz,
  (forall bs, ~ wellformed text bs) -> (forall i, 1 <= bufsz i) ->
  exists out e calls, read_to_end text frags bufsz = (out, EndErr e, calls) /\ e_kind e = "InvalidData" /\
    exists pre d rest, text = pre ++ d ++ rest /\ (pre = [] \/ pre = [48; 120]%N) /\ hexpairs d out.
Check C19_odd_digits_malformed : forall pre d bs c v ws,
  (pre = [] \/ pre = [48; 120]%N) -> hexpairs d bs -> hexval c = Some v ->
  (ws = [] \/ exists w, ws = [w] /\ is_ws w = true) ->
  forall bs', ~ wellformed (pre ++ d ++ c :: ws) bs'.
Check C19_nonhex_malformed : forall text s1 c s2,
  strip_prefix text = s1 ++ c :: s2 -> hexval c = None -> (s2 <> [] \/ is_ws c = false) ->
  forall bs, ~ wellformed text bs.
Check C19_reader_each_call : forall st r n, 1 <= n -> hr_inv st ->
  let T := remchars (remainder st) ++ r_text r in
  let res := hr_read st r n in
  match fst (fst res) with
  | Ok out =>
      (out = [] /\ lspec (first_read st) T = ([], true)) \/
      (out <> [] /\ length out <= n /\ first_read (snd (fst res)) = false /\
       let T' := remchars (remainder (snd (fst res))) ++ r_text (snd res) in
       lspec (first_read st) T = (out ++ fst (dec_stream T'), snd (dec_stream T')) /\
       length T' < length T)
  | Err e => snd (lspec (first_read st) T) = false /\ e_kind e = "InvalidData"
  | Panic _ => False
  end.
Check C19_writer_one_call : forall s buf,
  let k := sink_accepts s (2 * length buf) in
  k <= 2 * length buf /\
  s_got (snd (hw_write s buf)) = s_got s ++ firstn k (hex_encode buf) /\
  s_accept (snd (hw_write s buf)) = tl (s_accept s) /\
  (forall m, k = 2 * m ->
     fst (hw_write s buf) = Ok m /\ firstn k (hex_encode buf) = hex_encode (firstn m buf)) /\
  (forall m, k = 2 * m + 1 -> fst (hw_write s buf) = Err (mkErr "Other" [])).
Check C19_encode_is_lowercase_hex : forall bs, Forall (fun b => b < 256)%N bs ->
  string_of_list_ascii (map ascii_of_N (hex_encode bs)) = hex_bytes bs.
Check C19_write_all_even_sink : forall s buf, even_sink (s_accept s) ->
  exists s', write_all s buf = (Ok tt, s') /\ s_got s' = s_got s ++ hex_encode buf.
Check C19_write_all_any_sink : forall s buf,
  match write_all s buf with
  | (Ok _, s') => s_got s' = s_got s ++ hex_encode buf
  | (Err e, s') =>
      exists m j, m <= length buf /\
        s_got s' = s_got s ++ hex_encode (firstn m buf) ++ firstn j (hex_encode (skipn m buf)) /\
        ((e = mkErr "Other" [] /\ Nat.even j = false) \/ (e = mkErr "WriteZero" [] /\ j = 0 /\ m < length buf))
  | (Panic _, _) => False
  end.
Check C19_roundtrip : forall bs accept frags bufsz,
  Forall (fun b => b < 256)%N bs -> even_sink accept -> (forall i, 1 <= bufsz i) ->
  exists s' calls, write_all (mksink [] accept) bs = (Ok tt, s') /\
                   read_to_end (s_got s') frags bufsz = (bs, EndEof, calls).
