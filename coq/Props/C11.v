(* Props/C11.v -- Expression macros denote their body with arguments substituted. *)
From Verif Require Import Model.Base Model.Expr Model.Asm Proofs.ExprEvalProofs.
Open Scope Z_scope.

(* An invocation f(a1..an), evaluated in ANY context vs (top level: None; inside another
   macro's body: that macro's own bindings), at any nesting depth below the limit, equals
   f's body in which each parameter p_i is replaced by the VALUE of a_i evaluated in the
   caller's context -- and evaluated with no other variable visible (no capture of the
   caller's parameters, whatever their names). *)
Theorem C11_macro_denotes_substituted_body : forall labels macros f vs n args d,
  macros n = Some (Some d) ->
  eval labels macros (S f) vs (EMacro n args) =
    (do bound <- bind_args labels macros (S f) vs (em_params d) args [] ;
     eval labels macros f None (subst bound (em_body d))).
Proof. exact macro_denotes_substituted_body. Qed.
Print Assumptions C11_macro_denotes_substituted_body.

(* evaluating under bindings is the same as evaluating the substituted expression: this is
   what makes parameter NAMES irrelevant *)
Theorem C11_eval_subst : forall labels macros f vs e,
  eval labels macros f (Some vs) e = eval labels macros f None (subst vs e).
Proof. exact eval_subst. Qed.
Print Assumptions C11_eval_subst.

(* whether the definition appears before or after the use is irrelevant: the evaluator sees
   the table only through lookup by name, and a definition that is in the table is found *)
Theorem C11_definition_order : forall (t : mtable) n d,
  NoDup (map fst t) -> In (n, d) t -> mlookup t n = Some d.
Proof.
  induction t as [|[k x] r IH]; intros n d Hnd Hin; [destruct Hin|].
  cbn [map fst] in Hnd. inversion Hnd as [|? ? Hk Hr]; subst. cbn [mlookup].
  destruct Hin as [E|Hin].
  - inversion E; subst. now rewrite String.eqb_refl.
  - destruct (String.eqb_spec k n) as [->|Hne].
    + exfalso. apply Hk. change n with (fst (n, d)). now apply in_map.
    + now apply IH.
Qed.
Print Assumptions C11_definition_order.

(* evaluation always returns a value or an error value *)
Theorem C11_eval_total : forall labels macros f vs e s, eval labels macros f vs e <> Panic s.
Proof. exact eval_no_panic. Qed.
Print Assumptions C11_eval_total.

(* non-vacuity: forwarding a parameter of the same name, two levels deep *)
Example C11_example :
  let m := fun n => if String.eqb n "f" then Some (Some (mkemacro ["x"] (EPlus (EVar "x") (ENum 1))))
                    else if String.eqb n "g" then Some (Some (mkemacro ["x"] (ETimes (EMacro "f" [EVar "x"]) (ENum 2))))
                    else None in
  eval (fun _ => None) m 255 None (EMacro "g" [ENum 1]) = Ok 4.
Proof. vm_compute. reflexivity. Qed.

Check C11_macro_denotes_substituted_body : forall labels macros f vs n args d,
  macros n = Some (Some d) ->
  eval labels macros (S f) vs (EMacro n args) =
    (do bound <- bind_args labels macros (S f) vs (em_params d) args [] ;
     eval labels macros f None (subst bound (em_body d))).
Check C11_eval_subst : forall labels macros f vs e,
  eval labels macros f (Some vs) e = eval labels macros f None (subst vs e).
Check C11_definition_order : forall (t : mtable) n d,
  NoDup (map fst t) -> In (n, d) t -> mlookup t n = Some d.
Check C11_eval_total : forall labels macros f vs e s, eval labels macros f vs e <> Panic s.
