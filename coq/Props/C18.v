(* Props/C18.v -- Includes and imports cannot read outside the project root.
   About Model/Ingest.v over the MODELLED file system of Model/Path.v (a tree of directories,
   files and symbolic links; `canon` = realpath).  Assumptions of the model, not proved here:
   canonicalize / open / metadata resolve a path identically (the code canonicalizes for the
   CHECK and then opens the un-canonicalized candidate: in the model both go through `walk`),
   and the tree does not change during a run.  `reads r` is the ghost log: the canonical
   location of every file a directive read, in order, also when the run failed later. *)
From Verif Require Import Model.Base Model.Ops Model.Expr Model.Asm Model.Hex Model.Path Model.Ingest
                          Proofs.AsmLayoutProofs Proofs.IngestProofs.

(* For every tree (any links, any nesting), every top-level path and every directive argument:
   each file read by %import / %include / %include_hex, at any depth, lies COMPONENT-wise under
   the canonical location r of the directory of the top-level source path
   (Root::new: pop the file name, join to the current directory, canonicalize). *)
Theorem C18_reads_inside_root : forall fs main l,
  In l (reads (ingest_file fs main)) ->
  exists d r rest,
    pop (parse_path main) = (true, d) /\
    canon fs (join_path (mkp true (fs_cwd fs)) d) = Ok r /\ is_dir fs r = true /\
    l = r ++ rest.
Proof. exact ingest_file_reads_explicit. Qed.
Print Assumptions C18_reads_inside_root.

(* the same as a Forall; when no root can be established (`allowed` is then False) nothing is read *)
Theorem C18_reads_allowed : forall fs main,
  Forall (allowed (root_new fs (parse_path main))) (reads (ingest_file fs main)).
Proof. exact ingest_file_reads. Qed.
Print Assumptions C18_reads_allowed.

(* ... also for Ingest::ingest(path, src) on a source text that is not read from the tree *)
Theorem C18_reads_allowed_ingest : forall fs main src,
  Forall (allowed (root_new fs (parse_path main))) (reads (ingest fs main src)).
Proof. exact ingest_reads. Qed.
Print Assumptions C18_reads_allowed_ingest.

(* every directive kind calls `check` on the very path it then reads *)
Theorem C18_check_then_read : forall fs root msg cand,
  Forall (allowed root) (fst (ldo _ <- llift (checked fs root cand) ; read_logged fs msg cand)).
Proof. exact check_then_read. Qed.
Print Assumptions C18_check_then_read.

(* Path::starts_with is component-wise *)
Theorem C18_under_componentwise : forall root p, under root p = true <-> exists rest, p = root ++ rest.
Proof. exact under_spec. Qed.
Print Assumptions C18_under_componentwise.

(* A directive whose target exists outside the root fails with DirectoryTraversal and reads nothing:
   %import / %include (at any depth the code allows) ... *)
Theorem C18_import_outside : forall fs root fuel depth cur p r l,
  root = Ok r -> depth <= 255 ->
  canon fs (candidate cur p) = Ok l -> under r l = false ->
  resolve_and_ingest fs root fuel depth cur p = ([], Err traversal).
Proof. intros. unfold resolve_and_ingest. eapply import_outside; eauto. Qed.
Print Assumptions C18_import_outside.

(* ... and %include_hex *)
Theorem C18_include_hex_outside : forall fs root cur p r l,
  root = Ok r -> canon fs (candidate cur p) = Ok l -> under r l = false ->
  include_hex fs root cur p = ([], Err traversal).
Proof. exact include_hex_outside. Qed.
Print Assumptions C18_include_hex_outside.

(* At any nesting depth: if the run reaches such a directive (`escapes`: everything in front of it
   succeeded, in the top-level file or in a file opened through a chain of %import / %include),
   the whole assembly fails with DirectoryTraversal and produces no output. *)
Theorem C18_traversal_any_depth : forall fs main r ns,
  root_new fs (parse_path main) = Ok r ->
  escapes fs (Ok r) r 1 (parse_path main) ns ->
  snd (ingest fs main (Ok ns)) = Err traversal /\ output (ingest fs main (Ok ns)) = None.
Proof. exact ingest_traversal. Qed.
Print Assumptions C18_traversal_any_depth.

Theorem C18_escapes_fail : forall fs root r depth cur ns,
  root = Ok r -> escapes fs root r depth cur ns ->
  snd (preprocess fs root (256 - depth) depth cur ns) = Err traversal.
Proof. exact escapes_fail. Qed.
Print Assumptions C18_escapes_fail.

(* ---------- non-vacuity ---------- *)
(* /t/root is the project; /t/root2 and /t/out are outside.  Links: root/in -> a (inside),
   root/lnk.etk -> ../out/s.etk, root/od -> /t/out, root/a/up -> ../.. ; /t/via -> root. *)
Definition C18_ex_fs : fs_t :=
  let src ns := File (mkfile (Ok ns) "") in
  mkfs [ (["t"], Dir); (["t"; "root"], Dir); (["t"; "root"; "a"], Dir); (["t"; "out"], Dir); (["t"; "root2"], Dir);
         (["t"; "out"; "s.etk"], src [NOp (AOp 0x58 None)]);
         (["t"; "root2"; "s.etk"], src [NOp (AOp 0x58 None)]);
         (["t"; "root"; "a"; "ok.etk"], src [NOp (AOp 0x5b None)]);
         (["t"; "root"; "in"], Link "a");
         (["t"; "root"; "lnk.etk"], Link "../out/s.etk");
         (["t"; "root"; "od"], Link "/t/out");
         (["t"; "root"; "a"; "up"], Link "../..");
         (["t"; "via"], Link "root");
         (["t"; "root"; "loop"], Link "loop");
         (["t"; "root"; "m_ok.etk"], src [NImport "in/ok.etk"; NInclude "a/../in/./ok.etk"]);
         (["t"; "root"; "m1.etk"], src [NImport "lnk.etk"]);
         (["t"; "root"; "m2.etk"], src [NInclude "od/s.etk"]);
         (["t"; "root"; "m3.etk"], src [NIncludeHex "/t/out/s.etk"]);
         (["t"; "root"; "m4.etk"], src [NImport "../root2/s.etk"]);
         (["t"; "root"; "m5.etk"], src [NOp (AOp 0x5b None); NImport "a/n.etk"]);
         (["t"; "root"; "a"; "n.etk"], src [NInclude "up/out/s.etk"]);
         (["t"; "root"; "m6.etk"], src [NImport "a/../../nothing.etk"]);
         (["t"; "root"; "m7.etk"], src [NImport "loop"]) ]
       ["t"].

Example C18_example :
  (* allowed: through links that stay inside; also when the root is reached through a link *)
  output (ingest_file C18_ex_fs "/t/via/m_ok.etk") = Some [0x5b; 0x5b]%N
  /\ reads (ingest_file C18_ex_fs "/t/via/m_ok.etk") = [["t"; "root"; "a"; "ok.etk"]; ["t"; "root"; "a"; "ok.etk"]]
  (* refused, nothing read, no output: file link, directory link, absolute path, sibling whose name
     extends the root's, and a traversal from a nested imported file through `up -> ../..` *)
  /\ map (fun m => ingest_file C18_ex_fs m) ["/t/root/m1.etk"; "root/m2.etk"; "/t/via/m3.etk"; "/t/root/m4.etk"]
     = repeat ([], Err traversal) 4
  /\ ingest_file C18_ex_fs "/t/root/m5.etk" = ([["t"; "root"; "a"; "n.etk"]], Err traversal)
  /\ output (ingest_file C18_ex_fs "/t/root/m5.etk") = None
  (* a target that does not exist, a link loop: I/O error from canonicalize *)
  /\ snd (ingest_file C18_ex_fs "/t/root/m6.etk") = Err (mkErr "Io" ["canonicalizing_include/import"])
  /\ snd (ingest_file C18_ex_fs "/t/root/m7.etk") = Err (mkErr "Io" ["canonicalizing_include/import"])
  /\ under ["t"; "root"] ["t"; "root2"; "s.etk"] = false.
Proof. vm_compute. auto 10. Qed.

(* an explicit `escapes` derivation: nested, through m5.etk -> a/n.etk -> up/out/s.etk *)
Example C18_example_escapes :
  escapes C18_ex_fs (Ok ["t"; "root"]) ["t"; "root"] 1 (parse_path "/t/root/m5.etk")
          [NOp (AOp 0x5b None); NImport "a/n.etk"].
Proof.
  eapply (esc_nested C18_ex_fs (Ok ["t"; "root"]) ["t"; "root"] 1 (parse_path "/t/root/m5.etk")
            [NOp (AOp 0x5b None)] (NImport "a/n.etk") [] "a/n.etk").
  - vm_compute. reflexivity.
  - reflexivity.
  - reflexivity.
  - vm_compute. reflexivity.
  - reflexivity.
  - eapply (esc_here C18_ex_fs (Ok ["t"; "root"]) ["t"; "root"] 2 _ [] (NInclude "up/out/s.etk") [] "up/out/s.etk").
    + vm_compute. reflexivity.
    + reflexivity.
    + intros _. repeat constructor.
    + vm_compute. reflexivity.
    + vm_compute. reflexivity.
Qed.

Check C18_reads_inside_root : forall fs main l,
  In l (reads (ingest_file fs main)) ->
  exists d r rest,
    pop (parse_path main) = (true, d) /\
    canon fs (join_path (mkp true (fs_cwd fs)) d) = Ok r /\ is_dir fs r = true /\ l = r ++ rest.
Check C18_reads_allowed : forall fs main,
  Forall (allowed (root_new fs (parse_path main))) (reads (ingest_file fs main)).
Check C18_reads_allowed_ingest : forall fs main src,
  Forall (allowed (root_new fs (parse_path main))) (reads (ingest fs main src)).
Check C18_check_then_read : forall fs root msg cand,
  Forall (allowed root) (fst (ldo _ <- llift (checked fs root cand) ; read_logged fs msg cand)).
Check C18_under_componentwise : forall root p, under root p = true <-> exists rest, p = root ++ rest.
Check C18_import_outside : forall fs root fuel depth cur p r l,
  root = Ok r -> depth <= 255 -> canon fs (candidate cur p) = Ok l -> under r l = false ->
  resolve_and_ingest fs root fuel depth cur p = ([], Err traversal).
Check C18_include_hex_outside : forall fs root cur p r l,
  root = Ok r -> canon fs (candidate cur p) = Ok l -> under r l = false ->
  include_hex fs root cur p = ([], Err traversal).
Check C18_traversal_any_depth : forall fs main r ns,
  root_new fs (parse_path main) = Ok r ->
  escapes fs (Ok r) r 1 (parse_path main) ns ->
  snd (ingest fs main (Ok ns)) = Err traversal /\ output (ingest fs main (Ok ns)) = None.
Check C18_escapes_fail : forall fs root r depth cur ns,
  root = Ok r -> escapes fs root r depth cur ns ->
  snd (preprocess fs root (256 - depth) depth cur ns) = Err traversal.
