(* Props/C03.v -- A disassembly listing re-assembles to the original bytes.
   Only the property theorems, each closed by lemmas of Proofs/ListingProofs.v (and C04's
   Proofs/DisasmProofs.v), with Print Assumptions beneath and the statement pinned by Check. *)
From Coq Require Import Lia.
From Verif Require Import Model.Base Model.Ops Model.Disasm Model.Listing
  Proofs.OpsProofs Proofs.DisasmProofs Proofs.ListingProofs.
Open Scope N_scope.

(* (1a) opcode mnemonics, finite: all 256 bytes against the regenerated Cancun table and the
   regenerated alternatives of rule `op`.  For every defined opcode without immediate the
   alternative of `op` that matches its mnemonic matches ALL of it, and every EARLIER alternative
   matches no prefix of it (PEG ordered choice commits to the first success; a later reordering
   of asm.pest such as "jump" before "jumpi" breaks this proof).  Rule `push`, tried before `op`,
   does not match (this lets "push0" through).  The line lexes to op(mnemonic) and
   parse_abstract_op turns it into opcode c.  The same holds whatever follows the mnemonic on the
   line, unless it continues the word (`boundary`: end of input or a character not in [a-z0-9_]). *)
Theorem C03_op_table : forall c, c < 256 ->
  defined_in cancun_rows c = true -> r_extra (from_u8 cancun c) = 0 ->
  (exists pre a post, g_op_alts = (pre ++ a :: post)%list /\
     Forall (fun b => match_alt b (mnemonic c) = None) pre /\
     match_alt a (mnemonic c) = Some (mnemonic c, EmptyString)) /\
  match_op g_op_alts (mnemonic c) = Some (mnemonic c, EmptyString) /\
  (forall rest, boundary rest = true ->
     match_op g_op_alts (mnemonic c +++ rest) = Some (mnemonic c, rest)) /\
  lex_push (mnemonic c) = LexFail /\
  lex_line (mnemonic c) = LnStmt (LOp (mnemonic c)) /\
  parse_lexed (LOp (mnemonic c)) = Ok (SOp (from_u8 cancun c)) /\
  r_code (from_u8 cancun c) = c.
Proof.
  intros c _ Hd He. destruct (plain_spec c Hd He) as (A & B & C & D).
  split; [exact (op_choice c Hd He)|]. split; [exact B|].
  split; [intros rest Hb; now apply op_any_rest|].
  repeat split; try assumption. apply cancun_code.
Qed.
Print Assumptions C03_op_table.

(* (1b) push widths, finite: 1..32.  `word_size` (ordered alternatives from the grammar) reads
   exactly the decimal N in front of the separating blank, for every continuation of the line;
   the usize parse gives N; Op::push(N) is opcode 0x5f+N, which prints as "push"N. *)
Theorem C03_push_widths : forall n, 1 <= n <= 32 ->
  (forall rest, match_word_size (dec_of_N n +++ String " " rest) = Some (dec_of_N n, String " " rest)) /\
  dec_value (dec_of_N n) = n /\
  push cancun n = Some (from_u8 cancun (0x5f + n)) /\
  r_extra (from_u8 cancun (0x5f + n)) = n /\
  defined_in cancun_rows (0x5f + n) = true /\
  mnemonic (0x5f + n) = g_push_prefix +++ dec_of_N n.
Proof.
  intros n Hn. destruct (width_spec n Hn) as (A & B & C & D & E).
  split; [intros rest; apply word_size_widths; apply N_range_In; lia|]. auto.
Qed.
Print Assumptions C03_push_widths.

(* (2) immediates, unbounded: every byte string of every width >= 1 (all-zero and leading-zero
   included).  The printed hex is a `hex` literal, its value is the big-endian value of the
   bytes, the parse-time check `val >= 2^(8*size)` does not fire, and left-padding the minimal
   big-endian bytes (BigInt::to_bytes_be: [0] for zero; also with [] for zero) restores the bytes. *)
Theorem C03_immediate : forall bs n, length bs = n -> (1 <= n)%nat -> Forall (fun b => b < 256) bs ->
  match_hex ("0x" +++ hex_bytes bs) = Some (hex_bytes bs, EmptyString) /\
  value_of_hex (hex_bytes bs) = N_of_be bs /\
  N_of_be bs < 2 ^ (8 * N.of_nat n) /\
  pad_left n (bigint_bytes_be (N_of_be bs)) = bs /\
  pad_left n (be_bytes (N_of_be bs)) = bs.
Proof.
  intros bs n <- Hn Hb. repeat split.
  - now apply match_hex_bytes.
  - now apply value_of_hex_bytes.
  - now apply N_of_be_range.
  - now apply pad_restores.
  - now apply pad_restores_min.
Qed.
Print Assumptions C03_immediate.

(* (3a) any list of well-formed instructions over defined opcodes: the listing assembles to
   exactly their encoding *)
Theorem C03_items : forall its,
  Forall (fun it => defined_in cancun_rows (i_code it) = true /\ wf_item it /\
                    Forall (fun b => b < 256) (i_imm it)) its ->
  assemble_listing (map render_item its) = Ok (flatten its).
Proof.
  intros its H.
  assert (Hok : Forall item_ok its).
  { eapply Forall_impl; [|exact H]. intros it (Hd & Hw & Hb). split; [now apply defined_lt_256|auto]. }
  rewrite (assemble_listing_items its Hok).
  assert (Hall : forallb item_defined its = true).
  { apply forallb_forall. intros it Hin. rewrite Forall_forall in H. exact (proj1 (H it Hin)). }
  now rewrite Hall.
Qed.
Print Assumptions C03_items.

(* (3b) the property: for every way of feeding `code` to the disassembler (any history of writes
   and polls, C04) -- if `code` consists of complete instructions (no leftover) with defined
   opcodes, the listing of the disassembled instructions assembles to `code` exactly, every
   reported offset is the total size of the instructions before it, and finish succeeds. *)
Theorem C03_roundtrip : forall h,
  let code := hinput h in
  let items := fst (dfinal h) in
  Forall (fun b => b < 256) code ->
  snd (decode_all code) = [] ->
  forallb (fun it => defined_in cancun_rows (i_code it)) (fst (decode_all code)) = true ->
  assemble_listing (map render_item items) = Ok code /\
  offsets_from 0 items /\
  dfinish (snd (dfinal h)) = Ok tt.
Proof. exact listing_roundtrip. Qed.
Print Assumptions C03_roundtrip.

(* the same for the answer line of the harness command `dis_listing` *)
Theorem C03_run_listing : forall code, Forall (fun b => b < 256) code ->
  snd (decode_all code) = [] ->
  forallb (fun it => defined_in cancun_rows (i_code it)) (fst (decode_all code)) = true ->
  run_listing code = listing_answer true (fst (decode_all code)) (Ok code) /\
  offsets_from 0 (fst (decode_all code)).
Proof.
  intros code Hb Hl Hd. split; [now apply run_listing_ok|].
  now destruct (decode_all_spec code) as (_ & _ & C & _).
Qed.
Print Assumptions C03_run_listing.

(* (4) scope: the ONLY excluded bytes are the undefined ones.  Per byte (finite, 256): an
   undefined byte prints as a bare mnemonic that no statement matches; complete
   characterisation for all lists of well-formed instructions: Ok (exact bytes) iff every
   opcode is defined, otherwise the lexer error of the implementation. *)
Theorem C03_scope :
  (forall c, c < 256 -> defined_in cancun_rows c = false ->
     r_extra (from_u8 cancun c) = 0 /\ lex_line (mnemonic c) = LnFail) /\
  (forall its,
     Forall (fun it => i_code it < 256 /\ wf_item it /\ Forall (fun b => b < 256) (i_imm it)) its ->
     assemble_listing (map render_item its) =
       if forallb (fun it => defined_in cancun_rows (i_code it)) its
       then Ok (flatten its) else err0 "Parse.Lexer").
Proof. split; [exact undefined_spec|exact assemble_listing_items]. Qed.
Print Assumptions C03_scope.

(* the lines of a listing stay inside the fragment of the grammar that Model/Listing.v models:
   no ':' (label_definition), no '%' (builtin, local_macro), no '#', ';', newline *)
Theorem C03_alphabet : forall it, i_code it < 256 -> Forall (fun b => b < 256) (i_imm it) ->
  in_fragment (render_item it) = true /\
  forall x, In x [":"; "%"; "#"; ";"; "010"; "013"]%char -> contains_char x (render_item it) = false.
Proof.
  intros it Hc Hb. split; [now apply render_in_fragment|].
  intros x Hx. now apply render_no_special.
Qed.
Print Assumptions C03_alphabet.

(* ---------- non-vacuity ---------- *)
(* push0, push1 with a zero immediate, push2 with a leading zero, push32 all zero but the last
   byte, mstore8 / jumpi / swap16 / log4 (the order-sensitive alternatives), selfdestruct *)
Example C03_example :
  let code := [0x5f; 0x60; 0x00; 0x61; 0x00; 0x01; 0x53; 0x57; 0x9f; 0xa4; 0x7f] ++ repeat 0 31 ++ [0x07; 0xff] in
  assemble_listing (map render_item (fst (decode_all code))) = Ok code /\
  map render_item (fst (decode_all [0x5f; 0x60; 0x00; 0x61; 0x00; 0x01; 0x53; 0x57]))
    = ["push0"; "push1 0x00"; "push2 0x0001"; "mstore8"; "jumpi"] /\
  run_listing [0x61; 0x00; 0x01; 0x57] = "fin=1 offs=0,3 ok:61000157 text=push2 0x0001|jumpi" /\
  run_listing [0x0c] = "fin=1 offs=0 err:Parse.Lexer() text=invalid_0c".
Proof. vm_compute. auto. Qed.

(* ordered choice commits: with "jump" in front, "jumpi" is read as "jump" and the line fails on
   the leftover "i"; "push33 .." is word_size 3 followed by "3" where WHITESPACE is required *)
Example C03_example_order :
  match_op (AltLit "jump" :: g_op_alts) "jumpi" = Some ("jump", "i") /\
  match_op g_op_alts "jumpi" = Some ("jumpi", EmptyString) /\
  match_word_size "33 0x00" = Some ("3", "3 0x00") /\
  lex_line "push33 0x00" = LnFail /\
  lex_line "push1  0x00" = LnFail /\
  lex_line "push1 0x0" = LnUnmodelled.
Proof. vm_compute. auto 10. Qed.

(* ---------- statements pinned ---------- *)
Check C03_op_table : forall c, c < 256 ->
  defined_in cancun_rows c = true -> r_extra (from_u8 cancun c) = 0 ->
  (exists pre a post, g_op_alts = (pre ++ a :: post)%list /\
     Forall (fun b => match_alt b (mnemonic c) = None) pre /\
     match_alt a (mnemonic c) = Some (mnemonic c, EmptyString)) /\
  match_op g_op_alts (mnemonic c) = Some (mnemonic c, EmptyString) /\
  (forall rest, boundary rest = true ->
     match_op g_op_alts (mnemonic c +++ rest) = Some (mnemonic c, rest)) /\
  lex_push (mnemonic c) = LexFail /\
  lex_line (mnemonic c) = LnStmt (LOp (mnemonic c)) /\
  parse_lexed (LOp (mnemonic c)) = Ok (SOp (from_u8 cancun c)) /\
  r_code (from_u8 cancun c) = c.
Check C03_push_widths : forall n, 1 <= n <= 32 ->
  (forall rest, match_word_size (dec_of_N n +++ String " " rest) = Some (dec_of_N n, String " " rest)) /\
  dec_value (dec_of_N n) = n /\
  push cancun n = Some (from_u8 cancun (0x5f + n)) /\
  r_extra (from_u8 cancun (0x5f + n)) = n /\
  defined_in cancun_rows (0x5f + n) = true /\
  mnemonic (0x5f + n) = g_push_prefix +++ dec_of_N n.
Check C03_immediate : forall bs n, length bs = n -> (1 <= n)%nat -> Forall (fun b => b < 256) bs ->
  match_hex ("0x" +++ hex_bytes bs) = Some (hex_bytes bs, EmptyString) /\
  value_of_hex (hex_bytes bs) = N_of_be bs /\
  N_of_be bs < 2 ^ (8 * N.of_nat n) /\
  pad_left n (bigint_bytes_be (N_of_be bs)) = bs /\
  pad_left n (be_bytes (N_of_be bs)) = bs.
Check C03_items : forall its,
  Forall (fun it => defined_in cancun_rows (i_code it) = true /\ wf_item it /\
                    Forall (fun b => b < 256) (i_imm it)) its ->
  assemble_listing (map render_item its) = Ok (flatten its).
Check C03_roundtrip : forall h,
  let code := hinput h in
  let items := fst (dfinal h) in
  Forall (fun b => b < 256) code ->
  snd (decode_all code) = [] ->
  forallb (fun it => defined_in cancun_rows (i_code it)) (fst (decode_all code)) = true ->
  assemble_listing (map render_item items) = Ok code /\
  offsets_from 0 items /\
  dfinish (snd (dfinal h)) = Ok tt.
Check C03_run_listing : forall code, Forall (fun b => b < 256) code ->
  snd (decode_all code) = [] ->
  forallb (fun it => defined_in cancun_rows (i_code it)) (fst (decode_all code)) = true ->
  run_listing code = listing_answer true (fst (decode_all code)) (Ok code) /\
  offsets_from 0 (fst (decode_all code)).
Check C03_scope :
  (forall c, c < 256 -> defined_in cancun_rows c = false ->
     r_extra (from_u8 cancun c) = 0 /\ lex_line (mnemonic c) = LnFail) /\
  (forall its,
     Forall (fun it => i_code it < 256 /\ wf_item it /\ Forall (fun b => b < 256) (i_imm it)) its ->
     assemble_listing (map render_item its) =
       if forallb (fun it => defined_in cancun_rows (i_code it)) its
       then Ok (flatten its) else err0 "Parse.Lexer").
Check C03_alphabet : forall it, i_code it < 256 -> Forall (fun b => b < 256) (i_imm it) ->
  in_fragment (render_item it) = true /\
  forall x, In x [":"; "%"; "#"; ";"; "010"; "013"]%char -> contains_char x (render_item it) = false.
