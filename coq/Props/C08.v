(* Props/C08.v -- Operand expressions are evaluated as exact integer arithmetic.
   Models: Model/Expr.v (tree), Model/ExprSimple.v (evaluation on Z without macros), Model/Parse.v (literals, precedence climbing,
   push32).  Reference semantics: Spec/ExprSpec.v (positional value, two-level reading), Spec/Keccak.v. *)
From Verif Require Import Model.Base Model.Expr Model.ExprSimple Model.Parse Spec.Keccak Spec.ExprSpec Proofs.ExprProofs.

(* (1) binary, octal, decimal and hexadecimal literals of any length denote sum d_i * r^(n-i);
   the digit characters may be of either case *)
Theorem C08_digits_value : forall r, In r [2; 8; 10; 16]%N -> forall cs ds, spells r cs ds ->
  parse_radix_str (string_of_list_ascii cs) r = Ok (Z.of_N (positional r ds)).
Proof. exact digits_value. Qed.
Print Assumptions C08_digits_value.

(* the same from the literal's text with its prefix (0b / 0o / 0x with at least two digits / none) *)
Theorem C08_literal_text : forall k cs ds,
  spells (radix_of k) cs ds -> (min_digits k <= length cs)%nat ->
  lit_value (prefix_of k +++ string_of_list_ascii cs) = Ok (Z.of_N (positional (radix_of k) ds)).
Proof. exact lit_value_spec. Qed.
Print Assumptions C08_literal_text.

(* (2) "-d1...dn" denotes minus the decimal value, any number of digits *)
Theorem C08_neg_literal : forall cs ds, spells 10 cs ds -> (1 <= length cs)%nat ->
  neg_value (String "-" (string_of_list_ascii cs)) = Ok (- Z.of_N (positional 10 ds))%Z.
Proof. exact neg_literal. Qed.
Print Assumptions C08_neg_literal.

(* (3) for EVERY token list `term (op term)*` (nested parentheses included) pest's precedence climbing
   yields the textbook tree -- * and / below + and -, equal precedence nested to the left, a
   parenthesised group standing for its own tree -- and evaluating that tree is the textbook two-level
   evaluation (left-to-right products with Z.quot inside left-to-right sums), errors included *)
Theorem C08_climb_spec : forall ts, grammar_ok ts = true ->
  exists e, parse_expression ts = Ok e /\ reference_parse ts = Some e /\
            forall env, reference_value env ts = Some (eval_simple env e).
Proof. exact climb_spec. Qed.
Print Assumptions C08_climb_spec.

Theorem C08_climb_reference : forall ts e, reference_parse ts = Some e -> parse_toks ts = Ok e.
Proof. exact climb_reference. Qed.
Print Assumptions C08_climb_reference.

(* (4) `/` is Z.quot: truncation toward zero for every combination of signs *)
Theorem C08_quot_truncates : forall a b : Z, b <> 0%Z ->
  (Z.abs (Z.quot a b) * Z.abs b <= Z.abs a < (Z.abs (Z.quot a b) + 1) * Z.abs b)%Z /\
  (0 <= a * b -> 0 <= Z.quot a b)%Z /\ (a * b <= 0 -> Z.quot a b <= 0)%Z /\
  (a = b * Z.quot a b + Z.rem a b /\ 0 <= Z.rem a b * a /\ Z.abs (Z.rem a b) < Z.abs b)%Z.
Proof. exact quot_truncates. Qed.
Print Assumptions C08_quot_truncates.

Theorem C08_division : forall env a b x y, eval_simple env a = Ok x -> eval_simple env b = Ok y ->
  eval_simple env (EDivide a b) = if (y =? 0)%Z then err0 "DivisionByZero" else Ok (Z.quot x y).
Proof. intros env a b x y Ha Hb. cbn [eval_simple]. rewrite Ha, Hb. reflexivity. Qed.
Print Assumptions C08_division.

(* the evaluator used in these theorems is the shared evaluator of Model/Expr.v (Expression::eval_with_context)
   on a context with labels only: no macro table, no variable bindings, any remaining macro depth *)
Theorem C08_eval_is_shared_eval : forall env fuel e,
  Expr.eval env (fun _ => None) fuel None e = eval_simple env e.
Proof. exact eval_simple_is_eval. Qed.
Print Assumptions C08_eval_is_shared_eval.

(* (5) the assembled immediate is exactly the value: 0x7f, then 32 big-endian bytes *)
Theorem C08_push32_immediate : forall operand ts e v,
  lex_toks operand = Ok ts -> parse_expression ts = Ok e ->
  eval_simple no_labels e = Ok v -> (0 <= v < two256)%Z ->
  (do e' <- parse_push32 operand ; assemble_push32 [] e' []) =
    Ok (0x7f%N :: pad_left 32 (be_bytes (Z.to_N v))) /\
  length (pad_left 32 (be_bytes (Z.to_N v))) = 32%nat /\
  Z.of_N (N_of_be (pad_left 32 (be_bytes (Z.to_N v)))) = v.
Proof. exact push32_immediate. Qed.
Print Assumptions C08_push32_immediate.

(* with labels: whatever the label environment, a value in range is encoded exactly *)
Theorem C08_immediate_exact : forall env e v, eval_simple env e = Ok v -> (0 <= v < two256)%Z ->
  concretize32 env e = Ok (pad_left 32 (be_bytes (Z.to_N v))) /\
  length (pad_left 32 (be_bytes (Z.to_N v))) = 32%nat /\
  Z.of_N (N_of_be (pad_left 32 (be_bytes (Z.to_N v)))) = v.
Proof. exact concretize32_in_range. Qed.
Print Assumptions C08_immediate_exact.

(* no wrap-around: a constant operand outside [0, 2^256) never assembles *)
Theorem C08_out_of_range : forall operand ts e v,
  lex_toks operand = Ok ts -> parse_expression ts = Ok e -> eval_simple no_labels e = Ok v ->
  ((two256 <= v)%Z -> parse_push32 operand = err0 "Parse.ImmediateTooLarge") /\
  ((v < 0)%Z -> forall before after, exists er,
     (do e' <- parse_push32 operand ; assemble_push32 before e' after) = Err er /\
     (e_kind er = "ExpressionNegative" \/ e_kind er = "DuplicateLabel")).
Proof. exact push32_out_of_range. Qed.
Print Assumptions C08_out_of_range.

(* (6) selector / topic: first 4 / all 32 bytes of Keccak-256 of the signature text, big endian.
   Definitional in the model; Spec/Keccak.v is validated by its test vectors and, differentially, against the
   `sha3` crate by checks/c08.py. *)
Theorem C08_selector_topic : forall sig,
  selector sig = Z.of_N (N_of_be (firstn 4 (keccak256 (bytes_of_string sig)))) /\
  topic sig = Z.of_N (N_of_be (keccak256 (bytes_of_string sig))) /\
  (sig_ok sig = true ->
   lex_tok (SSelector sig) = Ok (TNum (selector sig)) /\ lex_tok (STopic sig) = Ok (TNum (topic sig))).
Proof. exact selector_topic_spec. Qed.
Print Assumptions C08_selector_topic.

(* ---------- non-vacuity ---------- *)

(* "0xfF" = 255, "0b101" = 5, "0o17" = 15, "007" = 7, "-10" = -10, through the theorems' hypotheses *)
Example C08_example_literals :
  spells 16 ["f"; "F"]%char [15; 15]%N /\ positional 16 [15; 15]%N = 255%N /\
  lit_value "0xfF" = Ok 255%Z /\ lit_value "0b101" = Ok 5%Z /\ lit_value "0o17" = Ok 15%Z /\
  lit_value "007" = Ok 7%Z /\ neg_value "-10" = Ok (-10)%Z /\ neg_value "-0" = Ok 0%Z /\
  lit_value "0x1" = lexer_error.
Proof.
  split; [|vm_compute; repeat split; reflexivity].
  constructor; [split; [reflexivity|left; reflexivity]|].
  constructor; [split; [reflexivity|right; reflexivity]|constructor].
Qed.

(* 1 - 2*3 - (4 + -20) / 3 : the tree is ((1 - (2*3)) - ((4 + -20) / 3)), its value -5 - (-16 quot 3) = -5 - -5 = 0;
   7 / -2 = -3 (toward zero, not -4);  1 / (2 - 2) is the DivisionByZero error *)
Example C08_example_climb :
  let ts := [TNum 1; TOp OpMinus; TNum 2; TOp OpTimes; TNum 3; TOp OpMinus;
             TParen [TNum 4; TOp OpPlus; TNum (-20)]; TOp OpDivide; TNum 3] in
  grammar_ok ts = true /\
  parse_expression ts =
    Ok (EMinus (EMinus (ENum 1) (ETimes (ENum 2) (ENum 3)))
               (EDivide (EPlus (ENum 4) (ENum (-20))) (ENum 3))) /\
  reference_value no_labels ts = Some (Ok 0%Z) /\
  reference_value no_labels [TNum 7; TOp OpDivide; TNum (-2)] = Some (Ok (-3)%Z) /\
  reference_value no_labels [TNum 1; TOp OpDivide; TParen [TNum 2; TOp OpMinus; TNum 2]] = Some (err0 "DivisionByZero").
Proof. vm_compute. repeat split; reflexivity. Qed.

Example C08_example_push32 :
  run_parse_eval [] [SLit "5"; SOp OpPlus; SNeg "-10"; SOp OpPlus; SLit "20"] [] =
    "ok:7f000000000000000000000000000000000000000000000000000000000000000f" /\
  run_parse_eval [] [SLit "1000"; SOp OpPlus; SNeg "-256"] [] =
    "ok:7f00000000000000000000000000000000000000000000000000000000000002e8" /\
  run_parse_eval [] [SSelector "transfer(address,uint256)"] [] =
    "ok:7f00000000000000000000000000000000000000000000000000000000a9059cbb" /\
  run_parse_eval [] [STopic "transfer(address,uint256)"] [] =
    "ok:7fa9059cbb2ab09eb219583f4a59a5d0623ade346d962bcd4e46b11da047c9049b" /\
  run_parse_eval [] [SLit "0"; SOp OpMinus; SLit "1"] [] = "err:ExpressionNegative(-1) out=-".
Proof. vm_compute. repeat split; reflexivity. Qed.

Check C08_digits_value : forall r, In r [2; 8; 10; 16]%N -> forall cs ds, spells r cs ds ->
  parse_radix_str (string_of_list_ascii cs) r = Ok (Z.of_N (positional r ds)).
Check C08_literal_text : forall k cs ds,
  spells (radix_of k) cs ds -> (min_digits k <= length cs)%nat ->
  lit_value (prefix_of k +++ string_of_list_ascii cs) = Ok (Z.of_N (positional (radix_of k) ds)).
Check C08_neg_literal : forall cs ds, spells 10 cs ds -> (1 <= length cs)%nat ->
  neg_value (String "-" (string_of_list_ascii cs)) = Ok (- Z.of_N (positional 10 ds))%Z.
Check C08_climb_spec : forall ts, grammar_ok ts = true ->
  exists e, parse_expression ts = Ok e /\ reference_parse ts = Some e /\
            forall env, reference_value env ts = Some (eval_simple env e).
Check C08_climb_reference : forall ts e, reference_parse ts = Some e -> parse_toks ts = Ok e.
Check C08_quot_truncates : forall a b : Z, b <> 0%Z ->
  (Z.abs (Z.quot a b) * Z.abs b <= Z.abs a < (Z.abs (Z.quot a b) + 1) * Z.abs b)%Z /\
  (0 <= a * b -> 0 <= Z.quot a b)%Z /\ (a * b <= 0 -> Z.quot a b <= 0)%Z /\
  (a = b * Z.quot a b + Z.rem a b /\ 0 <= Z.rem a b * a /\ Z.abs (Z.rem a b) < Z.abs b)%Z.
Check C08_division : forall env a b x y, eval_simple env a = Ok x -> eval_simple env b = Ok y ->
  eval_simple env (EDivide a b) = if (y =? 0)%Z then err0 "DivisionByZero" else Ok (Z.quot x y).
Check C08_eval_is_shared_eval : forall env fuel e,
  Expr.eval env (fun _ => None) fuel None e = eval_simple env e.
Check C08_push32_immediate : forall operand ts e v,
  lex_toks operand = Ok ts -> parse_expression ts = Ok e ->
  eval_simple no_labels e = Ok v -> (0 <= v < two256)%Z ->
  (do e' <- parse_push32 operand ; assemble_push32 [] e' []) =
    Ok (0x7f%N :: pad_left 32 (be_bytes (Z.to_N v))) /\
  length (pad_left 32 (be_bytes (Z.to_N v))) = 32%nat /\
  Z.of_N (N_of_be (pad_left 32 (be_bytes (Z.to_N v)))) = v.
Check C08_immediate_exact : forall env e v, eval_simple env e = Ok v -> (0 <= v < two256)%Z ->
  concretize32 env e = Ok (pad_left 32 (be_bytes (Z.to_N v))) /\
  length (pad_left 32 (be_bytes (Z.to_N v))) = 32%nat /\
  Z.of_N (N_of_be (pad_left 32 (be_bytes (Z.to_N v)))) = v.
Check C08_out_of_range : forall operand ts e v,
  lex_toks operand = Ok ts -> parse_expression ts = Ok e -> eval_simple no_labels e = Ok v ->
  ((two256 <= v)%Z -> parse_push32 operand = err0 "Parse.ImmediateTooLarge") /\
  ((v < 0)%Z -> forall before after, exists er,
     (do e' <- parse_push32 operand ; assemble_push32 before e' after) = Err er /\
     (e_kind er = "ExpressionNegative" \/ e_kind er = "DuplicateLabel")).
Check C08_selector_topic : forall sig,
  selector sig = Z.of_N (N_of_be (firstn 4 (keccak256 (bytes_of_string sig)))) /\
  topic sig = Z.of_N (N_of_be (keccak256 (bytes_of_string sig))) /\
  (sig_ok sig = true ->
   lex_tok (SSelector sig) = Ok (TNum (selector sig)) /\ lex_tok (STopic sig) = Ok (TNum (topic sig))).
