(* Props/C12.v -- Included files are isolated and spliced verbatim; imports are textual.
   `assemble` is the model of Assembler::assemble (Model/Asm.v); `preprocess`, `resolve_and_ingest`,
   `open_source`, `include_hex` are the model of etk-asm/src/ingest.rs (Model/Ingest.v) over the
   MODELLED file system of Model/Path.v.  Parsing is not modelled (a file carries its node list). *)
From Verif Require Import Model.Base Model.Ops Model.Expr Model.Asm Model.Hex Model.Path Model.Ingest
                          Proofs.AsmLayoutProofs Proofs.IngestProofs.

(* ---------- (1) %include: exactly the bytes of the stand-alone program, isolated ---------- *)

(* For every program around the directive: if the included op list assembles on its own to bs,
   the including program assembles exactly as if the directive were the literal bytes bs. *)
Theorem C12_include_standalone : forall pre s post bs,
  assemble s = Ok bs ->
  assemble (pre ++ [RScope s] ++ post) = assemble (pre ++ [RRaw bs] ++ post).
Proof. exact include_standalone. Qed.
Print Assumptions C12_include_standalone.

(* If it fails on its own with e, so does the whole -- exactly when the including file got as far
   as the directive: its macro declarations (taken from pre ++ post only) and the ops of pre succeed. *)
Theorem C12_include_standalone_err : forall pre s post e macros st,
  assemble s = Err e ->
  declare_macros (pre ++ post) [] = Ok macros ->
  push_all macros assemble_scope pre ainit = Ok st ->
  assemble (pre ++ [RScope s] ++ post) = Err e.
Proof. exact include_standalone_err. Qed.
Print Assumptions C12_include_standalone_err.

(* The complete account of an included scope in its context.  The scope's bytes are `assemble s`:
   a fresh assembler that is given neither the outer macro table nor the outer label state.
   The outer macro table is that of pre ++ post (nothing declared in s), and the outer state
   after the scope differs from the one before only by the queued bytes (add_raw). *)
Theorem C12_scope_in_context : forall pre s post,
  assemble (pre ++ [RScope s] ++ post) =
  (do macros <- declare_macros (pre ++ post) [] ;
   do st <- push_all macros assemble_scope pre ainit ;
   do bs <- assemble s ;
   do st' <- push_all macros assemble_scope post (add_raw st bs) ;
   finish_scope macros st').
Proof. exact scope_in_context. Qed.
Print Assumptions C12_scope_in_context.

Theorem C12_scope_isolated : forall macros st s r,
  push_all macros assemble_scope (RScope s :: r) st =
  (do bs <- assemble s ; push_all macros assemble_scope r (add_raw st bs))
  /\ forall bs, a_declared (add_raw st bs) = a_declared st /\
                a_undeclared (add_raw st bs) = a_undeclared st /\
                a_ctr (add_raw st bs) = a_ctr st /\
                a_ready (add_raw st bs) = a_ready st ++ [IRaw bs].
Proof. exact scope_isolated. Qed.
Print Assumptions C12_scope_isolated.

(* ---------- (2) %import: the imported file's ops are spliced in place ---------- *)
Theorem C12_import_splice : forall fs root fuel depth cur pre p post,
  preprocess fs root fuel depth cur (pre ++ NImport p :: post) =
  (ldo a <- preprocess fs root fuel depth cur pre ;
   ldo b <- resolve_and_ingest fs root fuel depth cur p ;
   ldo c <- preprocess fs root fuel depth cur post ;
   lret (a ++ b ++ c)).
Proof. exact import_splice. Qed.
Print Assumptions C12_import_splice.

(* ... so importing a file of plain ops is the same as pasting them (same raw ops, hence the
   same assembly; the ghost log differs by the one read) *)
Theorem C12_import_paste : forall fs root fuel depth cur pre p post lg cand f ops,
  open_source fs root depth cur p = (lg, Ok (cand, f)) ->
  f_src f = Ok (map NOp ops) ->
  snd (preprocess fs root (S fuel) depth cur (pre ++ NImport p :: post)) =
  snd (preprocess fs root (S fuel) depth cur (pre ++ map NOp ops ++ post)).
Proof. exact import_paste. Qed.
Print Assumptions C12_import_paste.

(* ---------- %include_hex: exactly the bytes written in the file ---------- *)
Theorem C12_include_hex_verbatim : forall text bs w1 w2,
  Forall (fun b => b < 256)%N bs ->
  Forall (fun c => is_ascii_ws c = true) w1 -> Forall (fun c => is_ascii_ws c = true) w2 ->
  bytes_of_string text = w1 ++ hex_encode bs ++ w2 ->
  hex_decode_text text = Ok bs.
Proof. exact include_hex_verbatim. Qed.
Print Assumptions C12_include_hex_verbatim.

Theorem C12_include_hex_spec : forall fs root cur p lg bs,
  include_hex fs root cur p = (lg, Ok bs) ->
  exists r l f, root = Ok r /\ canon fs (join_path (dir_of cur) (parse_path p)) = Ok l /\ under r l = true /\
                lookup fs l = Some (File f) /\ lg = [l] /\ hex_decode_text (f_text f) = Ok bs.
Proof. exact include_hex_spec. Qed.
Print Assumptions C12_include_hex_spec.

(* ---------- (3) labels after an inserted blob account for its full length ---------- *)
Theorem C12_label_after_raw : forall pre bs l post bytes,
  assemble (pre ++ [RRaw bs] ++ ROp (ALabel l) :: post) = Ok bytes ->
  exists macros ipre ipost w pos b1 b2,
    layout macros (ipre ++ IRaw bs :: ILabel l :: ipost) = Ok (w, pos) /\
    emit macros (lenv pos) (ipre ++ IRaw bs :: ILabel l :: ipost) w = Ok bytes /\
    bytes = b1 ++ bs ++ b2 /\
    emit macros (lenv pos) ipre w = Ok b1 /\
    emit macros (lenv pos) ipost (skipn (count_push ipre) w) = Ok b2 /\
    lenv pos l = Some (Z.of_nat (length b1) + Z.of_nat (length bs))%Z.
Proof. exact assemble_label_after_raw. Qed.
Print Assumptions C12_label_after_raw.

Theorem C12_label_after_include : forall pre s bs l post bytes,
  assemble s = Ok bs ->
  assemble (pre ++ [RScope s] ++ ROp (ALabel l) :: post) = Ok bytes ->
  exists macros ipre ipost w pos b1 b2,
    layout macros (ipre ++ IRaw bs :: ILabel l :: ipost) = Ok (w, pos) /\
    emit macros (lenv pos) (ipre ++ IRaw bs :: ILabel l :: ipost) w = Ok bytes /\
    bytes = b1 ++ bs ++ b2 /\
    emit macros (lenv pos) ipre w = Ok b1 /\
    emit macros (lenv pos) ipost (skipn (count_push ipre) w) = Ok b2 /\
    lenv pos l = Some (Z.of_nat (length b1) + Z.of_nat (length bs))%Z.
Proof. exact assemble_label_after_include. Qed.
Print Assumptions C12_label_after_include.

(* C01's layout theorem with an IRaw item in front of the label, for any item list *)
Theorem C12_label_after_blob : forall macros items w pos bytes,
  layout macros items = Ok (w, pos) ->
  emit macros (lenv pos) items w = Ok bytes ->
  NoDup (labels_of items) ->
  forall pre bs l post, items = pre ++ IRaw bs :: ILabel l :: post ->
  exists b1 b2,
    bytes = b1 ++ bs ++ b2 /\
    emit macros (lenv pos) pre w = Ok b1 /\
    emit macros (lenv pos) post (skipn (count_push pre) w) = Ok b2 /\
    lenv pos l = Some (Z.of_nat (length b1) + Z.of_nat (length bs))%Z.
Proof. exact label_after_blob. Qed.
Print Assumptions C12_label_after_blob.

(* ---------- (4) paths resolve against the directory of the file holding the directive ---------- *)
(* at every depth the code allows (sources.len() = depth <= 255): the file opened is
   dir(cur).join(p), the read goes to its canonical location, and that file becomes the
   `cur` of the nested preprocessing at depth + 1 *)
Theorem C12_resolve_relative : forall fs root fuel depth cur p,
  depth <= 255 ->
  resolve_and_ingest fs root (S fuel) depth cur p =
  (ldo cf <- open_source fs root depth cur p ;
   ldo nodes <- llift (f_src (snd cf)) ;
   preprocess fs root fuel (S depth) (fst cf) nodes)
  /\ (forall lg cand f, open_source fs root depth cur p = (lg, Ok (cand, f)) ->
        cand = join_path (dir_of cur) (parse_path p) /\
        exists l, canon fs cand = Ok l /\ lookup fs l = Some (File f) /\ lg = [l]).
Proof. exact resolve_relative. Qed.
Print Assumptions C12_resolve_relative.

(* depth 256: RecursionLimit, nothing read *)
Theorem C12_recursion_limit : forall fs root fuel depth cur p,
  255 < depth -> resolve_and_ingest fs root fuel depth cur p = ([], Err (mkErr "RecursionLimit" [])).
Proof. exact recursion_limit. Qed.
Print Assumptions C12_recursion_limit.

(* the model's fuel (256 - depth) never decides anything: more fuel, same answer *)
Theorem C12_fuel_irrelevant : forall fs root fuel depth extra cur ns,
  fuel + depth = 256 ->
  preprocess fs root (fuel + extra) depth cur ns = preprocess fs root fuel depth cur ns.
Proof. exact preprocess_fuel_irrelevant. Qed.
Print Assumptions C12_fuel_irrelevant.

(* ---------- non-vacuity: a tree with all three directives, nested, in subdirectories ---------- *)
Definition C12_ex_fs : fs_t :=
  let src ns := File (mkfile (Ok ns) "") in
  mkfs [ (["r"], Dir); (["r"; "a"], Dir); (["r"; "a"; "b"], Dir);
         (["r"; "main.etk"],
          src [NOp (AOp 0x60 (Some (ENum 1))); NOp (ALabel "x"); NOp (AOp 0x5b None);
               NInclude "a/f.etk"; NIncludeHex "a/h.hex";
               NOp (ALabel "end"); NOp (AOp 0x5b None); NOp (AOp 0x61 (Some (ELabel "end")));
               NImport "a/g.etk"]);
         (["r"; "a"; "f.etk"],
          src [NOp (ALabel "x"); NOp (AOp 0x5b None); NOp (AOp 0x60 (Some (ELabel "x"))); NImport "b/k.etk"]);
         (["r"; "a"; "b"; "k.etk"], src [NOp (AOp 0x58 None); NImport "../../top.etk"]);
         (["r"; "top.etk"], src [NOp (AOp 0x5a None)]);
         (["r"; "a"; "g.etk"], src [NOp (AOp 0x60 (Some (ELabel "x")))]);
         (["r"; "a"; "h.hex"], File (mkfile (Err (mkErr "Parse.Lexer" [])) "deadbeef "));
         (["r"; "loop.etk"], src [NImport "loop.etk"]) ]
       ["r"].

(* the included file's `x` is 0 (its own counting), the importer's `x` is 2 and is what the
   imported g.etk sees; `end` = 3 + 5 + 4 = 12 accounts for the include and the blob *)
Example C12_example :
  output (ingest_file C12_ex_fs "/r/main.etk") =
    Some [0x60; 0x01; 0x5b;  0x5b; 0x60; 0x00; 0x58; 0x5a;  0xde; 0xad; 0xbe; 0xef;
          0x5b; 0x61; 0x00; 0x0c;  0x60; 0x02]%N
  /\ reads (ingest_file C12_ex_fs "main.etk") =
       [["r"; "a"; "f.etk"]; ["r"; "a"; "b"; "k.etk"]; ["r"; "top.etk"]; ["r"; "a"; "h.hex"]; ["r"; "a"; "g.etk"]]
  /\ snd (ingest_file C12_ex_fs "/r/loop.etk") = Err (mkErr "RecursionLimit" [])
  /\ length (reads (ingest_file C12_ex_fs "/r/loop.etk")) = 255.
Proof. vm_compute. auto. Qed.

Check C12_include_standalone : forall pre s post bs,
  assemble s = Ok bs -> assemble (pre ++ [RScope s] ++ post) = assemble (pre ++ [RRaw bs] ++ post).
Check C12_include_standalone_err : forall pre s post e macros st,
  assemble s = Err e -> declare_macros (pre ++ post) [] = Ok macros ->
  push_all macros assemble_scope pre ainit = Ok st ->
  assemble (pre ++ [RScope s] ++ post) = Err e.
Check C12_scope_in_context : forall pre s post,
  assemble (pre ++ [RScope s] ++ post) =
  (do macros <- declare_macros (pre ++ post) [] ;
   do st <- push_all macros assemble_scope pre ainit ;
   do bs <- assemble s ;
   do st' <- push_all macros assemble_scope post (add_raw st bs) ;
   finish_scope macros st').
Check C12_scope_isolated : forall macros st s r,
  push_all macros assemble_scope (RScope s :: r) st =
  (do bs <- assemble s ; push_all macros assemble_scope r (add_raw st bs))
  /\ forall bs, a_declared (add_raw st bs) = a_declared st /\ a_undeclared (add_raw st bs) = a_undeclared st /\
                a_ctr (add_raw st bs) = a_ctr st /\ a_ready (add_raw st bs) = a_ready st ++ [IRaw bs].
Check C12_import_splice : forall fs root fuel depth cur pre p post,
  preprocess fs root fuel depth cur (pre ++ NImport p :: post) =
  (ldo a <- preprocess fs root fuel depth cur pre ;
   ldo b <- resolve_and_ingest fs root fuel depth cur p ;
   ldo c <- preprocess fs root fuel depth cur post ;
   lret (a ++ b ++ c)).
Check C12_import_paste : forall fs root fuel depth cur pre p post lg cand f ops,
  open_source fs root depth cur p = (lg, Ok (cand, f)) -> f_src f = Ok (map NOp ops) ->
  snd (preprocess fs root (S fuel) depth cur (pre ++ NImport p :: post)) =
  snd (preprocess fs root (S fuel) depth cur (pre ++ map NOp ops ++ post)).
Check C12_include_hex_verbatim : forall text bs w1 w2,
  Forall (fun b => b < 256)%N bs ->
  Forall (fun c => is_ascii_ws c = true) w1 -> Forall (fun c => is_ascii_ws c = true) w2 ->
  bytes_of_string text = w1 ++ hex_encode bs ++ w2 -> hex_decode_text text = Ok bs.
Check C12_include_hex_spec : forall fs root cur p lg bs,
  include_hex fs root cur p = (lg, Ok bs) ->
  exists r l f, root = Ok r /\ canon fs (join_path (dir_of cur) (parse_path p)) = Ok l /\ under r l = true /\
                lookup fs l = Some (File f) /\ lg = [l] /\ hex_decode_text (f_text f) = Ok bs.
Check C12_label_after_raw : forall pre bs l post bytes,
  assemble (pre ++ [RRaw bs] ++ ROp (ALabel l) :: post) = Ok bytes ->
  exists macros ipre ipost w pos b1 b2,
    layout macros (ipre ++ IRaw bs :: ILabel l :: ipost) = Ok (w, pos) /\
    emit macros (lenv pos) (ipre ++ IRaw bs :: ILabel l :: ipost) w = Ok bytes /\
    bytes = b1 ++ bs ++ b2 /\ emit macros (lenv pos) ipre w = Ok b1 /\
    emit macros (lenv pos) ipost (skipn (count_push ipre) w) = Ok b2 /\
    lenv pos l = Some (Z.of_nat (length b1) + Z.of_nat (length bs))%Z.
Check C12_label_after_include : forall pre s bs l post bytes,
  assemble s = Ok bs ->
  assemble (pre ++ [RScope s] ++ ROp (ALabel l) :: post) = Ok bytes ->
  exists macros ipre ipost w pos b1 b2,
    layout macros (ipre ++ IRaw bs :: ILabel l :: ipost) = Ok (w, pos) /\
    emit macros (lenv pos) (ipre ++ IRaw bs :: ILabel l :: ipost) w = Ok bytes /\
    bytes = b1 ++ bs ++ b2 /\ emit macros (lenv pos) ipre w = Ok b1 /\
    emit macros (lenv pos) ipost (skipn (count_push ipre) w) = Ok b2 /\
    lenv pos l = Some (Z.of_nat (length b1) + Z.of_nat (length bs))%Z.
Check C12_label_after_blob : forall macros items w pos bytes,
  layout macros items = Ok (w, pos) -> emit macros (lenv pos) items w = Ok bytes ->
  NoDup (labels_of items) ->
  forall pre bs l post, items = pre ++ IRaw bs :: ILabel l :: post ->
  exists b1 b2, bytes = b1 ++ bs ++ b2 /\ emit macros (lenv pos) pre w = Ok b1 /\
    emit macros (lenv pos) post (skipn (count_push pre) w) = Ok b2 /\
    lenv pos l = Some (Z.of_nat (length b1) + Z.of_nat (length bs))%Z.
Check C12_resolve_relative : forall fs root fuel depth cur p,
  depth <= 255 ->
  resolve_and_ingest fs root (S fuel) depth cur p =
  (ldo cf <- open_source fs root depth cur p ;
   ldo nodes <- llift (f_src (snd cf)) ;
   preprocess fs root fuel (S depth) (fst cf) nodes)
  /\ (forall lg cand f, open_source fs root depth cur p = (lg, Ok (cand, f)) ->
        cand = join_path (dir_of cur) (parse_path p) /\
        exists l, canon fs cand = Ok l /\ lookup fs l = Some (File f) /\ lg = [l]).
Check C12_recursion_limit : forall fs root fuel depth cur p,
  255 < depth -> resolve_and_ingest fs root fuel depth cur p = ([], Err (mkErr "RecursionLimit" [])).
Check C12_fuel_irrelevant : forall fs root fuel depth extra cur ns,
  fuel + depth = 256 ->
  preprocess fs root (fuel + extra) depth cur ns = preprocess fs root fuel depth cur ns.
