(* Props/C05ops.v -- the heart of C05: the z3 bit-vector term that etk-analyze builds for a
   symbolic expression (model: Model/Z3Tr.v, semantics of terms: Spec/SmtBv.v) denotes, for all
   256-bit operand values, exactly the EVM's result (Spec/EvmSem.v, Spec/SymEval.v). *)
From Verif Require Import Model.Base Model.Sym Model.SymTree Spec.EvmSem Spec.SmtBv Spec.SymEval
  Model.Z3Tr Proofs.SymProofs Proofs.Z3TrProofs.
Open Scope Z_scope.

(* well-sorted terms denote values of their width *)
Theorem C05ops_range : forall M t, wf_term t = true ->
  0 < width t /\ 0 <= bv_eval M t < 2 ^ width t.
Proof. exact wf_range. Qed.
Print Assumptions C05ops_range.

(* the computable definitions of bvshl/bvlshr in Spec/SmtBv.v are the literal SMT-LIB ones *)
Theorem C05ops_shift_literal : forall w a b, 0 <= w -> 0 <= b ->
  bvshl w a b = (a * 2 ^ b) mod 2 ^ w /\ (0 <= a < 2 ^ w -> bvlshr w a b = a / 2 ^ b).
Proof. intros w a b Hw Hb. split; [apply bvshl_literal|apply bvlshr_literal]; assumption. Qed.
Print Assumptions C05ops_shift_literal.

(* (a) every pure operation: the node built by Z3Visit::exit from the terms of the children
   (any well-sorted 256-bit terms, i.e. ANY operand words) denotes the EVM's result; no fresh
   constant is consumed.  (Exp is not in pure_sym: see C05ops_exp.) *)
Theorem C05ops_tr_op_correct : forall M s args n,
  pure_sym s = true -> length args = children s -> Forall bv256 args ->
  snd (tr_node s args n) = n /\
  bv_eval M (fst (tr_node s args n)) = evm_pure s (map (bv_eval M) args).
Proof. exact tr_op_correct. Qed.
Print Assumptions C05ops_tr_op_correct.

(* the same, operation by operation (statements in terms of the EVM operations themselves) *)
Theorem C05ops_per_operation : forall M ta tb tc, bv256 ta -> bv256 tb -> bv256 tc ->
  let a := bv_eval M ta in let b := bv_eval M tb in let c := bv_eval M tc in
  bv_eval M (t_add ta tb) = evm_add a b /\ bv_eval M (t_sub ta tb) = evm_sub a b /\
  bv_eval M (t_mul ta tb) = evm_mul a b /\ bv_eval M (t_div ta tb) = evm_div a b /\
  bv_eval M (t_sdiv ta tb) = evm_sdiv a b /\ bv_eval M (t_mod ta tb) = evm_mod a b /\
  bv_eval M (t_smod ta tb) = evm_smod a b /\
  bv_eval M (t_addmod ta tb tc) = evm_addmod a b c /\ bv_eval M (t_mulmod ta tb tc) = evm_mulmod a b c /\
  bv_eval M (t_lt ta tb) = evm_lt a b /\ bv_eval M (t_gt ta tb) = evm_gt a b /\
  bv_eval M (t_slt ta tb) = evm_slt a b /\ bv_eval M (t_sgt ta tb) = evm_sgt a b /\
  bv_eval M (t_eq ta tb) = evm_eq a b /\ bv_eval M (t_iszero ta) = evm_iszero a /\
  bv_eval M (t_and ta tb) = evm_and a b /\ bv_eval M (t_or ta tb) = evm_or a b /\
  bv_eval M (t_xor ta tb) = evm_xor a b /\ bv_eval M (t_not ta) = evm_not a /\
  bv_eval M (t_byte ta tb) = evm_byte a b /\
  bv_eval M (t_shl ta tb) = evm_shl a b /\ bv_eval M (t_shr ta tb) = evm_shr a b /\
  bv_eval M (t_sar ta tb) = evm_sar a b /\
  bv_eval M (t_signextend ta tb) = evm_signextend a b.
Proof.
  intros M ta tb tc Ha Hb Hc. cbv zeta.
  repeat split;
    first [ apply tr_add_correct | apply tr_sub_correct | apply tr_mul_correct | apply tr_div_correct
          | apply tr_sdiv_correct | apply tr_mod_correct | apply tr_smod_correct
          | apply tr_addmod_correct | apply tr_mulmod_correct | apply tr_lt_correct
          | apply tr_gt_correct | apply tr_slt_correct | apply tr_sgt_correct | apply tr_eq_correct
          | apply tr_iszero_correct | apply tr_and_correct | apply tr_or_correct
          | apply tr_xor_correct | apply tr_not_correct | apply tr_byte_correct
          | apply tr_shl_correct | apply tr_shr_correct | apply tr_sar_correct
          | apply tr_signextend_correct ]; assumption.
Qed.
Print Assumptions C05ops_per_operation.

(* Exp.  Literal exponent below 2^64 (BV::as_u64 of the exponent's term is Some): the
   square-and-multiply chain of 256-bit products denotes base ** exponent exactly, for every base
   and every such exponent, 0 ** 0 = 1 included ... *)
Theorem C05ops_exp_literal : forall M ta e, bv256 ta -> 0 <= e < 2 ^ 64 ->
  bv256 (t_exp_lit ta e) /\ bv_eval M (t_exp_lit ta e) = evm_exp (bv_eval M ta) e.
Proof. exact tr_exp_lit_correct. Qed.
Print Assumptions C05ops_exp_literal.

(* ... so the node is exact and consumes no fresh constant; any other exponent: the node is the
   fresh constant `exp!n` (an unconstrained word, like a state read) *)
Theorem C05ops_exp : forall M ta tb n, bv256 ta -> bv256 tb ->
  (forall e, as_u64 tb = Some e ->
     0 <= e < 2 ^ 64 /\ bv_eval M tb = e /\
     snd (tr_node SExp [ta; tb] n) = n /\
     bv_eval M (fst (tr_node SExp [ta; tb] n)) = evm_exp (bv_eval M ta) (bv_eval M tb)) /\
  (as_u64 tb = None -> tr_node SExp [ta; tb] n = (BFresh "exp" n, S n)).
Proof. exact tr_exp_node. Qed.
Print Assumptions C05ops_exp.

(* which expressions are literals for the translation is the syntactic notion of Spec/SymEval.v *)
Theorem C05ops_literal : forall t, wf_tree t = true -> forall n,
  as_u64 (fst (tr_tree t n)) = lit64 t.
Proof. exact tr_tree_lit64. Qed.
Print Assumptions C05ops_literal.

(* every node is a well-sorted 256-bit term; constants denote their value *)
Theorem C05ops_node_sort : forall s args n,
  wf_sym s = true -> length args = children s -> Forall bv256 args ->
  bv256 (fst (tr_node s args n)).
Proof. exact tr_node_bv256. Qed.
Print Assumptions C05ops_node_sort.

Theorem C05ops_const : forall M v, 0 <= v < 2 ^ 256 ->
  bv256 (make_const v) /\ bv_eval M (make_const v) = v.
Proof. exact make_const_correct. Qed.
Print Assumptions C05ops_const.

(* (b) prefix encodings: decoding gives the tree back (fuel: the depth suffices) ... *)
Theorem C05ops_decode_encode : forall t, arity_tree t = true ->
  (forall fuel r, (tree_depth t <= fuel)%nat -> decode_tree fuel (encode_tree t ++ r) = Some (t, r)) /\
  tree_of (encode_tree t) = Some t.
Proof. intros t Ha. split; [apply decode_encode; exact Ha|apply tree_of_encode; exact Ha]. Qed.
Print Assumptions C05ops_decode_encode.

(* ... and the stack-based traversal (Expr::walk + Z3Visit::exit + the final assert) of the
   encoding of a tree computes, without panic, the term of the structural translation,
   including the threading of z3's fresh-constant counter *)
Theorem C05ops_tr_walk : forall t n, arity_tree t = true ->
  tr_sexpr_from n (encode_tree t) = Ok (tr_tree t n) /\
  (forall fuel r a, (tree_depth t <= fuel)%nat ->
     walk fuel (encode_tree t ++ r) (a, n) = Ok (r, (fst (tr_tree t n) :: a, snd (tr_tree t n)))).
Proof.
  intros t n Ha. split; [apply tr_walk; exact Ha|].
  intros fuel r a Hf. apply tr_walk_gen; assumption.
Qed.
Print Assumptions C05ops_tr_walk.

(* (c) soundness.  E is a concrete execution: entry-stack words, environment words,
   calldataload/blockhash, and se_read k = the word observed at the k-th unconstrained node
   (post-order; k is also the index of the z3 fresh constant created for that node): a state
   read, or an EXP whose exponent is not a literal -- for the latter the user instantiates
   se_read k with evm_exp of the operand values, as C05ops_example_exp does.
   Under every interpretation that agrees with E the term denotes the value of the tree. *)
Theorem C05ops_tr_sound_gen : forall M E, agrees M E -> forall t, wf_tree t = true -> forall n,
  bv256 (fst (tr_tree t n)) /\
  bv_eval M (fst (tr_tree t n)) = fst (eval_tree E t n) /\
  snd (tr_tree t n) = snd (eval_tree E t n).
Proof. exact tr_sound_gen. Qed.
Print Assumptions C05ops_tr_sound_gen.

(* such an interpretation exists for every execution (variable names are injective etc.) *)
Theorem C05ops_concrete_agrees : forall E, agrees (concrete_interp E) E.
Proof. exact concrete_agrees. Qed.
Print Assumptions C05ops_concrete_agrees.

Theorem C05ops_tr_sound : forall E t n, wf_tree t = true ->
  bv_eval (concrete_interp E) (fst (tr_tree t n)) = fst (eval_tree E t n) /\
  snd (tr_tree t n) = snd (eval_tree E t n).
Proof. exact tr_sound. Qed.
Print Assumptions C05ops_tr_sound.

(* ---- non-vacuity ---- *)
Definition Mex : interp := mkInterp (fun _ => 5) (fun k => Z.of_nat k + 100) (fun _ x => x + 1).
Definition MAX : Z := 2 ^ 256 - 1.
Definition MIN : Z := 2 ^ 255.      (* -2^255 *)

(* -2^255 / -1 = -2^255; x / 0 = 0; -1 smod 2 = -1; (MAX + MAX) mod (MAX - 1) without wrapping;
   byte with index 2^253 (index * 8 wraps to 0); sar by 2^255; signextend from byte 0 *)
Example C05ops_example_values :
  bv_eval Mex (t_sdiv (c256 MIN) (c256 MAX)) = MIN /\
  bv_eval Mex (t_sdiv (c256 7) (c256 0)) = 0 /\
  bv_eval Mex (t_smod (c256 MAX) (c256 2)) = MAX /\
  bv_eval Mex (t_addmod (c256 MAX) (c256 MAX) (c256 (MAX - 1))) = 2 /\
  bv_eval Mex (t_mulmod (c256 MAX) (c256 MAX) (c256 (MAX - 1))) = 1 /\
  bv_eval Mex (t_byte (c256 (2 ^ 253)) (c256 MAX)) = 0 /\
  bv_eval Mex (t_byte (c256 31) (c256 0xabcd)) = 0xcd /\
  bv_eval Mex (t_sar (c256 (2 ^ 255)) (c256 MIN)) = MAX /\
  bv_eval Mex (t_shl (c256 256) (c256 1)) = 0 /\
  bv_eval Mex (t_signextend (c256 0) (c256 0x80)) = MAX - 0x7f /\
  bv_eval Mex (t_signextend (c256 31) (c256 0x80)) = 0x80 /\
  bv_eval Mex (fst (tr_node SExp [c256 3; c256 4] 0)) = 81 /\
  bv_eval Mex (fst (tr_node SExp [c256 0; c256 0] 0)) = 1 /\
  bv_eval Mex (t_exp_lit (c256 MAX) 255) = MAX /\
  tr_node SExp [c256 3; BNamed "etk_var1"] 7 = (BFresh "exp" 7, 8%nat) /\
  tr_node SExp [c256 3; c256 (2 ^ 64)] 7 = (BFresh "exp" 7, 8%nat).
Proof. vm_compute. repeat split; reflexivity. Qed.

(* the spec side gives the same numbers *)
Example C05ops_example_spec :
  evm_sdiv MIN MAX = MIN /\ evm_smod MAX 2 = MAX /\ evm_addmod MAX MAX (MAX - 1) = 2 /\
  evm_byte (2 ^ 253) MAX = 0 /\ evm_signextend 0 0x80 = MAX - 0x7f.
Proof. vm_compute. repeat split; reflexivity. Qed.

(* the translations that used to be in /repo are wrong (kept as regression witnesses):
   smod through bvsmod (sign of the divisor), addmod wrapping at 256 bits, byte with the
   unguarded shift *)
Example C05ops_old_defects :
  bin_sem Bsmod 256 MAX 2 <> evm_smod MAX 2 /\
  bin_sem Burem 256 (bin_sem Badd 256 MAX MAX) (MAX - 1) <> evm_addmod MAX MAX (MAX - 1) /\
  Z.land (bvlshr 256 MAX ((248 - (2 ^ 253 * 8) mod 2 ^ 256) mod 2 ^ 256)) 255 <> evm_byte (2 ^ 253) MAX.
Proof. vm_compute. repeat split; discriminate. Qed.

(* a whole expression: traversal, counter threading and soundness *)
Definition ex_tree : stree :=
  SNode SAdd [SNode SSLoad [SNode (SVar 1) []];
              SNode SMulMod [SNode SGas []; SNode (SConst 7) []; SNode SCallValue []]].
Definition ex_env : senv :=
  mkSenv (fun _ => 11) (fun _ => 5) (fun x => x) (fun x => x) (fun k => Z.of_nat k + 100).
Example C05ops_example_tree :
  wf_tree ex_tree = true /\
  encode_tree ex_tree = [SAdd; SSLoad; SVar 1; SMulMod; SGas; SConst 7; SCallValue] /\
  tr_sexpr (encode_tree ex_tree) = Ok (fst (tr_tree ex_tree 0)) /\
  snd (tr_tree ex_tree 0) = 2%nat /\
  bv_eval (concrete_interp ex_env) (fst (tr_tree ex_tree 0)) = 100 + (101 * 7) mod 5 /\
  fst (eval_tree ex_env ex_tree 0) = 100 + (101 * 7) mod 5 /\
  is_panic (tr_sexpr [SAdd; SVar 1]) = true /\ is_panic (tr_sexpr []) = true.
Proof. vm_compute. repeat split; reflexivity. Qed.

(* Exp in a tree: literal exponent (no fresh constant) and non-literal exponent (fresh constant
   exp!1, created after sload!0); the execution supplies 2 ** 10 for that occurrence *)
Definition ex_tree_exp : stree :=
  SNode SAdd [SNode SExp [SNode (SVar 1) []; SNode (SConst 5) []];
              SNode SExp [SNode (SConst 2) []; SNode SSLoad [SNode (SVar 1) []]]].
Definition ex_env_exp : senv :=
  mkSenv (fun _ => 3) (fun _ => 0) (fun x => x) (fun x => x)
         (fun k => match k with O => 10 | _ => evm_exp 2 10 end).
Example C05ops_example_exp :
  wf_tree ex_tree_exp = true /\
  smt_of_term (fst (tr_tree ex_tree_exp 0)) =
    "(bvadd (bvmul (bvmul (_ bv1 256) etk_var1) (bvmul (bvmul etk_var1 etk_var1) (bvmul etk_var1 etk_var1))) exp!1)" /\
  snd (tr_tree ex_tree_exp 0) = 2%nat /\
  bv_eval (concrete_interp ex_env_exp) (fst (tr_tree ex_tree_exp 0)) = 3 ^ 5 + 2 ^ 10 /\
  fst (eval_tree ex_env_exp ex_tree_exp 0) = 3 ^ 5 + 2 ^ 10 /\
  lit64 (SNode SExp [SNode (SVar 1) []; SNode (SConst 0) []]) = Some 1.
Proof. vm_compute. repeat split; reflexivity. Qed.

(* ---- pins ---- *)
Check C05ops_range : forall M t, wf_term t = true -> 0 < width t /\ 0 <= bv_eval M t < 2 ^ width t.
Check C05ops_shift_literal : forall w a b, 0 <= w -> 0 <= b ->
  bvshl w a b = (a * 2 ^ b) mod 2 ^ w /\ (0 <= a < 2 ^ w -> bvlshr w a b = a / 2 ^ b).
Check C05ops_tr_op_correct : forall M s args n,
  pure_sym s = true -> length args = children s -> Forall bv256 args ->
  snd (tr_node s args n) = n /\
  bv_eval M (fst (tr_node s args n)) = evm_pure s (map (bv_eval M) args).
Check C05ops_per_operation : forall M ta tb tc, bv256 ta -> bv256 tb -> bv256 tc ->
  let a := bv_eval M ta in let b := bv_eval M tb in let c := bv_eval M tc in
  bv_eval M (t_add ta tb) = evm_add a b /\ bv_eval M (t_sub ta tb) = evm_sub a b /\
  bv_eval M (t_mul ta tb) = evm_mul a b /\ bv_eval M (t_div ta tb) = evm_div a b /\
  bv_eval M (t_sdiv ta tb) = evm_sdiv a b /\ bv_eval M (t_mod ta tb) = evm_mod a b /\
  bv_eval M (t_smod ta tb) = evm_smod a b /\
  bv_eval M (t_addmod ta tb tc) = evm_addmod a b c /\ bv_eval M (t_mulmod ta tb tc) = evm_mulmod a b c /\
  bv_eval M (t_lt ta tb) = evm_lt a b /\ bv_eval M (t_gt ta tb) = evm_gt a b /\
  bv_eval M (t_slt ta tb) = evm_slt a b /\ bv_eval M (t_sgt ta tb) = evm_sgt a b /\
  bv_eval M (t_eq ta tb) = evm_eq a b /\ bv_eval M (t_iszero ta) = evm_iszero a /\
  bv_eval M (t_and ta tb) = evm_and a b /\ bv_eval M (t_or ta tb) = evm_or a b /\
  bv_eval M (t_xor ta tb) = evm_xor a b /\ bv_eval M (t_not ta) = evm_not a /\
  bv_eval M (t_byte ta tb) = evm_byte a b /\
  bv_eval M (t_shl ta tb) = evm_shl a b /\ bv_eval M (t_shr ta tb) = evm_shr a b /\
  bv_eval M (t_sar ta tb) = evm_sar a b /\
  bv_eval M (t_signextend ta tb) = evm_signextend a b.
Check C05ops_exp_literal : forall M ta e, bv256 ta -> 0 <= e < 2 ^ 64 ->
  bv256 (t_exp_lit ta e) /\ bv_eval M (t_exp_lit ta e) = evm_exp (bv_eval M ta) e.
Check C05ops_exp : forall M ta tb n, bv256 ta -> bv256 tb ->
  (forall e, as_u64 tb = Some e ->
     0 <= e < 2 ^ 64 /\ bv_eval M tb = e /\
     snd (tr_node SExp [ta; tb] n) = n /\
     bv_eval M (fst (tr_node SExp [ta; tb] n)) = evm_exp (bv_eval M ta) (bv_eval M tb)) /\
  (as_u64 tb = None -> tr_node SExp [ta; tb] n = (BFresh "exp" n, S n)).
Check C05ops_literal : forall t, wf_tree t = true -> forall n,
  as_u64 (fst (tr_tree t n)) = lit64 t.
Check C05ops_node_sort : forall s args n,
  wf_sym s = true -> length args = children s -> Forall bv256 args -> bv256 (fst (tr_node s args n)).
Check C05ops_const : forall M v, 0 <= v < 2 ^ 256 ->
  bv256 (make_const v) /\ bv_eval M (make_const v) = v.
Check C05ops_decode_encode : forall t, arity_tree t = true ->
  (forall fuel r, (tree_depth t <= fuel)%nat -> decode_tree fuel (encode_tree t ++ r) = Some (t, r)) /\
  tree_of (encode_tree t) = Some t.
Check C05ops_tr_walk : forall t n, arity_tree t = true ->
  tr_sexpr_from n (encode_tree t) = Ok (tr_tree t n) /\
  (forall fuel r a, (tree_depth t <= fuel)%nat ->
     walk fuel (encode_tree t ++ r) (a, n) = Ok (r, (fst (tr_tree t n) :: a, snd (tr_tree t n)))).
Check C05ops_tr_sound_gen : forall M E, agrees M E -> forall t, wf_tree t = true -> forall n,
  bv256 (fst (tr_tree t n)) /\
  bv_eval M (fst (tr_tree t n)) = fst (eval_tree E t n) /\
  snd (tr_tree t n) = snd (eval_tree E t n).
Check C05ops_concrete_agrees : forall E, agrees (concrete_interp E) E.
Check C05ops_tr_sound : forall E t n, wf_tree t = true ->
  bv_eval (concrete_interp E) (fst (tr_tree t n)) = fst (eval_tree E t n) /\
  snd (tr_tree t n) = snd (eval_tree E t n).
