(* Props/C14.v -- The assembler never crashes, whatever the input.
   PARTIAL BY NATURE: the theorems cover the modelled core from the syntax tree down --
   operand evaluation (division, macro kinds, arity, recursion depth), the relaxation layout
   (termination within its fuel = bounded time) and emission.  What happens inside pest on an
   arbitrary string, native stack depth, and the file system are outside any executable
   model: they are covered by exploration in checks/c14.py (see KNOWN_FINDINGS.txt, D19). *)
From Verif Require Import Model.Base Model.Ops Model.Expr Model.Asm
  Proofs.ExprEvalProofs Proofs.AsmLayoutProofs Proofs.AsmTotalProofs.
Open Scope Z_scope.

(* operand evaluation returns a value or an error value for every expression, every macro
   table (cyclic or not), every context: recursion is cut at depth 255 by an error *)
Theorem C14_eval_never_panics : forall labels macros fuel vars e s,
  eval labels macros fuel vars e <> Panic s.
Proof. exact eval_no_panic. Qed.
Print Assumptions C14_eval_never_panics.

(* the relaxation loop terminates within 31 * #push + 1 sweeps for EVERY item list *)
Theorem C14_layout_terminates : forall macros items,
  exists w pos, layout macros items = Ok (w, pos).
Proof. exact layout_total. Qed.
Print Assumptions C14_layout_terminates.

(* backpatch_and_emit returns bytes or an error value, never a panic *)
Theorem C14_finish_never_panics : forall macros st s, finish_scope macros st <> Panic s.
Proof. exact finish_scope_no_panic. Qed.
Print Assumptions C14_finish_never_panics.

(* Assembler::assemble, for every syntax tree: every nesting of scopes, every (cyclic, mis-applied,
   ill-formed) macro table, every operand: bytes or an error value, never a panic *)
Theorem C14_assemble_never_panics : forall ops s, assemble ops <> Panic s.
Proof. exact assemble_no_panic. Qed.
Print Assumptions C14_assemble_never_panics.

(* the same including the parser's constant range check (Ingest::ingest from the tree down) *)
Theorem C14_ingest_never_panics : forall ops s, ingest_ast ops <> Panic s.
Proof. exact ingest_ast_no_panic. Qed.
Print Assumptions C14_ingest_never_panics.

Example C14_example :
  let r := ROp (AMacroDefE "f" [] (EMacro "f" [])) in
  assemble [r; ROp (AOp 0x60 (Some (EMacro "f" [])))] = err0 "RecursionLimit" /\
  assemble [ROp (AMacroDefI "m" [] [AMacro "m" []]); ROp (AMacro "m" [])] = err0 "RecursionLimit" /\
  assemble [ROp (AOp 0x60 (Some (EDivide (ENum 1) (ENum 0))))] = err0 "DivisionByZero".
Proof. repeat split; vm_compute; reflexivity. Qed.

Check C14_eval_never_panics : forall labels macros fuel vars e s,
  eval labels macros fuel vars e <> Panic s.
Check C14_layout_terminates : forall macros items, exists w pos, layout macros items = Ok (w, pos).
Check C14_finish_never_panics : forall macros st s, finish_scope macros st <> Panic s.
Check C14_assemble_never_panics : forall ops s, assemble ops <> Panic s.
Check C14_ingest_never_panics : forall ops s, ingest_ast ops <> Panic s.
