(* Props/C14.v -- The assembler never crashes, whatever the input.
   The theorems run FROM SOURCE TEXT: C14_text_never_panics says that, for every byte string, the
   model of Ingest::ingest of one source text -- the PEG model of asm.pest (Model/Peg.v on the
   generated Gen/AsmGrammar.v), the conversion of pest's pairs to the syntax tree (Model/ParseTree.v:
   parse/mod.rs, macros.rs, expression.rs, args.rs, every unwrap()/unreachable!() a Panic), the
   parser's constant check and the assembler (Model/Asm.v) -- returns bytes or an error value.
   Below it: operand evaluation (division, macro kinds, arity, recursion depth), the relaxation
   layout (termination within its fuel = bounded time), emission; the PEG interpreter terminates on
   every input for every well-formed grammar (C14_peg_total and its siblings) and is sound for the natural semantics of
   pest's dialect (C14_peg_sound), from which the shape of the pairs of each rule is derived.
   The models are tied to the code by the differential runs of checks/pegcorr.py (pairs, tree, bytes).
   PARTIAL BY NATURE for the rest: file directives (%import / %include / %include_hex: Model/Ingest.v,
   C12 / C18), native stack depth and the file system are outside these theorems: they are covered
   by exploration in checks/c14.py (see KNOWN_FINDINGS.txt, D19). *)
From Verif Require Import Model.Base Model.Ops Model.Expr Model.Asm
  Proofs.ExprEvalProofs Proofs.AsmLayoutProofs Proofs.AsmTotalProofs
  Model.PegAst Gen.AsmGrammar Model.Peg Proofs.PegProofs
  Model.Ingest Model.ParseTree Proofs.PegSemProofs Proofs.ParseTreeProofs.
Open Scope Z_scope.

(* operand evaluation returns a value or an error value for every expression, every macro
   table (cyclic or not), every context: recursion is cut at depth 255 by an error *)
Theorem C14_eval_never_panics : forall labels macros fuel vars e s,
  eval labels macros fuel vars e <> Panic s.
Proof. exact eval_no_panic. Qed.
Print Assumptions C14_eval_never_panics.

(* the relaxation loop terminates within 31 * #push + 1 sweeps for EVERY item list *)
Theorem C14_layout_terminates : forall macros items,
  exists w pos, layout macros items = Ok (w, pos).
Proof. exact layout_total. Qed.
Print Assumptions C14_layout_terminates.

(* backpatch_and_emit returns bytes or an error value, never a panic *)
Theorem C14_finish_never_panics : forall macros st s, finish_scope macros st <> Panic s.
Proof. exact finish_scope_no_panic. Qed.
Print Assumptions C14_finish_never_panics.

(* Assembler::assemble, for every syntax tree: every nesting of scopes, every (cyclic, mis-applied,
   ill-formed) macro table, every operand: bytes or an error value, never a panic *)
Theorem C14_assemble_never_panics : forall ops s, assemble ops <> Panic s.
Proof. exact assemble_no_panic. Qed.
Print Assumptions C14_assemble_never_panics.

(* the same including the parser's constant range check (Ingest::ingest from the tree down) *)
Theorem C14_ingest_never_panics : forall ops s, ingest_ast ops <> Panic s.
Proof. exact ingest_ast_no_panic. Qed.
Print Assumptions C14_ingest_never_panics.

Example C14_example :
  let r := ROp (AMacroDefE "f" [] (EMacro "f" [])) in
  assemble [r; ROp (AOp 0x60 (Some (EMacro "f" [])))] = err0 "RecursionLimit" /\
  assemble [ROp (AMacroDefI "m" [] [AMacro "m" []]); ROp (AMacro "m" [])] = err0 "RecursionLimit" /\
  assemble [ROp (AOp 0x60 (Some (EDivide (ENum 1) (ENum 0))))] = err0 "DivisionByZero".
Proof. repeat split; vm_compute; reflexivity. Qed.

(* ---- the statement parser (pest) ---- *)

(* asm.pest, as read by the translator, passes the well-formedness check: every rule reference is
   defined, no rule reaches itself before consuming input (no left recursion, implicit
   WHITESPACE / COMMENT skips included), no repetition has a body that can match the empty string *)
Theorem C14_peg_asm_grammar_wf : wf_grammar asm_grammar = true.
Proof. exact asm_grammar_wf. Qed.
Print Assumptions C14_peg_asm_grammar_wf.

(* termination of well-formed PEGs, for pest's dialect: for EVERY grammar that passes the check the
   interpreter returns pairs or a parse error on every input with the fuel
   enough_fuel = (|input| + 1) * (#rules + 2): it neither runs out of fuel (unbounded recursion of
   the generated parser) nor repeats an empty match for ever *)
Theorem C14_peg_total : forall g start input,
  wf_grammar g = true -> find_rule (compile g) start <> None ->
  exists o, peg_parse g start input = Ok o.
Proof. exact peg_parse_total. Qed.
Print Assumptions C14_peg_total.

Theorem C14_peg_fuel_suffices : forall g start input,
  wf_grammar g = true ->
  exists r, peg_parse_fuel (enough_fuel g input) g start input = r /\
            r <> Panic "out of fuel" /\ r <> Panic "empty repetition".
Proof. exact peg_parse_fuel_suffices. Qed.
Print Assumptions C14_peg_fuel_suffices.

(* AsmParser::parse(Rule::program, src), for every byte string: pairs or a parse error *)
Theorem C14_parser_never_panics : forall input, exists o, parse_program input = Ok o.
Proof. exact parse_program_total. Qed.
Print Assumptions C14_parser_never_panics.

(* non-vacuity: the check refuses a left-recursive grammar and an empty repetition, on which the
   interpreter does panic; the model on a statement with an implicit skip and a comment *)
Example C14_peg_example :
  let lrec := [("a", MNormal, PChoice (PSeq (PRef "a") (PStr (str_bytes "x"))) (PStr (str_bytes "y")))] in
  let erep := [("a", MNormal, PStar (POpt (PStr (str_bytes "x"))))] in
  wf_grammar lrec = false /\ peg_parse lrec "a" (str_bytes "yx") = Panic "out of fuel" /\
  wf_grammar erep = false /\ peg_parse erep "a" (str_bytes "y") = Panic "empty repetition" /\
  run_peg (str_bytes "push1 1 + f(2)# c") =
    "push:0-14 word_size:4-5 expression:6-14 decimal:6-7 plus:8-9 expression_macro:10-14 function_name:10-11 expression:12-13 decimal:12-13 EOI:17-17"%string /\
  run_peg (str_bytes "push1  1") = "err"%string.
Proof. repeat split; vm_compute; reflexivity. Qed.

(* ---- from source text: pest pairs -> syntax tree (parse/mod.rs, macros.rs, expression.rs, args.rs) ---- *)

(* the interpreter is sound for the natural semantics of pest's dialect, for EVERY grammar: a
   successful parse consumed a prefix s of the input and produced pairs ps related by `sem`
   (rule by rule: the text a pair spans and the pairs under it are those its rule body describes) *)
Theorem C14_peg_sound : forall g start input ps,
  peg_parse g start input = Ok (Some ps) ->
  exists s rest, input = s ++ rest /\ sem (compile g) (RRef start) NonAtomic 0%N s ps.
Proof. exact peg_parse_sem. Qed.
Print Assumptions C14_peg_sound.

(* parse_asm after pest: on the pairs that AsmParser::parse can return, none of the unwrap() /
   unreachable!() / assert! / slice indices of parse/mod.rs, macros.rs, expression.rs, args.rs fires:
   the conversion returns the nodes or a ParseError *)
Theorem C14_conv_never_panics : forall input ps,
  parse_program input = Ok (Some ps) -> forall s, conv_nodes input ps <> Panic s.
Proof. exact conv_nodes_no_panic. Qed.
Print Assumptions C14_conv_never_panics.

(* parse_asm, for every byte string: nodes or a ParseError *)
Theorem C14_parse_text_never_panics : forall input s, parse_text input <> Panic s.
Proof. exact parse_text_no_panic. Qed.
Print Assumptions C14_parse_text_never_panics.

(* the error values of parse_asm: exactly the five ParseError variants, with the arguments the
   harness prints (ParseError::Lexer for every text pest refuses; the counts of MissingArgument /
   ExtraArgument are always expected = 1, got = 0) *)
Theorem C14_parse_errors : forall input e, parse_nodes input = Err e ->
  In e [mkErr "Parse.Lexer" []; mkErr "Parse.ImmediateTooLarge" []; mkErr "Parse.MissingArgument" ["1"; "0"];
        mkErr "Parse.ExtraArgument" ["1"]; mkErr "Parse.ArgumentType" []].
Proof. exact parse_nodes_errors. Qed.
Print Assumptions C14_parse_errors.

(* THE PROPERTY, from source text: Ingest::ingest of one source text (no file directives), for
   every byte string: bytes or an error value, never a panic *)
Theorem C14_text_never_panics : forall input s, ingest_text input <> Panic s.
Proof. exact ingest_text_no_panic. Qed.
Print Assumptions C14_text_never_panics.

(* whatever tree the parser builds from a text, assembling it returns bytes or an error value *)
Theorem C14_parsed_text_never_panics : forall input ops,
  parse_text input = Ok ops -> forall s, ingest_ast ops <> Panic s.
Proof. exact parsed_text_never_panics. Qed.
Print Assumptions C14_parsed_text_never_panics.

(* non-vacuity: the conversion does panic on pairs the grammar cannot produce (a `push` pair without
   operand, an operator in operand position), and the model runs from text *)
Example C14_text_example :
  conv_nodes (str_bytes "push1") [Pair "push" 0 5 [Pair "word_size" 4 5 []]] = Panic "parse_push: operand unwrap()" /\
  conv_nodes (str_bytes "+") [Pair "push_macro" 0 1 []] = Panic "parse_abstract_op: unreachable!()" /\
  run_asm_text (str_bytes "%macro m(x)
push1 $x+selector(""f()"")/0x1000000 # c
%end
a:
%m(1+1) ; %push(a)") = "ok:60286000"%string /\
  run_asm_text (str_bytes "%push(1,2)") = "err:Parse.ExtraArgument(1) out=-"%string /\
  run_asm_text (str_bytes "push1 256") = "err:Parse.ImmediateTooLarge() out=-"%string /\
  run_parse_debug (str_bytes "%import(1)") = "err:ArgumentType"%string.
Proof. repeat split; vm_compute; reflexivity. Qed.

Check C14_eval_never_panics : forall labels macros fuel vars e s,
  eval labels macros fuel vars e <> Panic s.
Check C14_layout_terminates : forall macros items, exists w pos, layout macros items = Ok (w, pos).
Check C14_finish_never_panics : forall macros st s, finish_scope macros st <> Panic s.
Check C14_assemble_never_panics : forall ops s, assemble ops <> Panic s.
Check C14_ingest_never_panics : forall ops s, ingest_ast ops <> Panic s.
Check C14_peg_asm_grammar_wf : wf_grammar asm_grammar = true.
Check C14_peg_total : forall g start input,
  wf_grammar g = true -> find_rule (compile g) start <> None ->
  exists o, peg_parse g start input = Ok o.
Check C14_peg_fuel_suffices : forall g start input,
  wf_grammar g = true ->
  exists r, peg_parse_fuel (enough_fuel g input) g start input = r /\
            r <> Panic "out of fuel" /\ r <> Panic "empty repetition".
Check C14_parser_never_panics : forall input, exists o, parse_program input = Ok o.
Check C14_parsed_text_never_panics : forall input ops,
  parse_text input = Ok ops -> forall s, ingest_ast ops <> Panic s.
Check C14_peg_sound : forall g start input ps,
  peg_parse g start input = Ok (Some ps) ->
  exists s rest, input = s ++ rest /\ sem (compile g) (RRef start) NonAtomic 0%N s ps.
Check C14_conv_never_panics : forall input ps,
  parse_program input = Ok (Some ps) -> forall s, conv_nodes input ps <> Panic s.
Check C14_parse_text_never_panics : forall input s, parse_text input <> Panic s.
Check C14_text_never_panics : forall input s, ingest_text input <> Panic s.
Check C14_parse_errors : forall input e, parse_nodes input = Err e ->
  In e [mkErr "Parse.Lexer" []; mkErr "Parse.ImmediateTooLarge" []; mkErr "Parse.MissingArgument" ["1"; "0"];
        mkErr "Parse.ExtraArgument" ["1"]; mkErr "Parse.ArgumentType" []].
