(* Props/C14.v -- The assembler never crashes, whatever the input.
   PARTIAL BY NATURE: the theorems cover the modelled core from the syntax tree down --
   operand evaluation (division, macro kinds, arity, recursion depth), the relaxation layout
   (termination within its fuel = bounded time) and emission -- and, above the tree, the statement
   parser: the PEG model of asm.pest (Model/Peg.v on the generated Gen/AsmGrammar.v) returns pairs or
   a parse error for EVERY byte string (theorems C14_peg_* at the end; the model is tied to pest by
   the differential runs peg:* of checks/pegcorr.py).  The conversion of pairs to the tree
   (parse/mod.rs), native stack depth, and the file system are outside any executable
   model: they are covered by exploration in checks/c14.py (see KNOWN_FINDINGS.txt, D19). *)
From Verif Require Import Model.Base Model.Ops Model.Expr Model.Asm
  Proofs.ExprEvalProofs Proofs.AsmLayoutProofs Proofs.AsmTotalProofs
  Model.PegAst Gen.AsmGrammar Model.Peg Proofs.PegProofs.
Open Scope Z_scope.

(* operand evaluation returns a value or an error value for every expression, every macro
   table (cyclic or not), every context: recursion is cut at depth 255 by an error *)
Theorem C14_eval_never_panics : forall labels macros fuel vars e s,
  eval labels macros fuel vars e <> Panic s.
Proof. exact eval_no_panic. Qed.
Print Assumptions C14_eval_never_panics.

(* the relaxation loop terminates within 31 * #push + 1 sweeps for EVERY item list *)
Theorem C14_layout_terminates : forall macros items,
  exists w pos, layout macros items = Ok (w, pos).
Proof. exact layout_total. Qed.
Print Assumptions C14_layout_terminates.

(* backpatch_and_emit returns bytes or an error value, never a panic *)
Theorem C14_finish_never_panics : forall macros st s, finish_scope macros st <> Panic s.
Proof. exact finish_scope_no_panic. Qed.
Print Assumptions C14_finish_never_panics.

(* Assembler::assemble, for every syntax tree: every nesting of scopes, every (cyclic, mis-applied,
   ill-formed) macro table, every operand: bytes or an error value, never a panic *)
Theorem C14_assemble_never_panics : forall ops s, assemble ops <> Panic s.
Proof. exact assemble_no_panic. Qed.
Print Assumptions C14_assemble_never_panics.

(* the same including the parser's constant range check (Ingest::ingest from the tree down) *)
Theorem C14_ingest_never_panics : forall ops s, ingest_ast ops <> Panic s.
Proof. exact ingest_ast_no_panic. Qed.
Print Assumptions C14_ingest_never_panics.

Example C14_example :
  let r := ROp (AMacroDefE "f" [] (EMacro "f" [])) in
  assemble [r; ROp (AOp 0x60 (Some (EMacro "f" [])))] = err0 "RecursionLimit" /\
  assemble [ROp (AMacroDefI "m" [] [AMacro "m" []]); ROp (AMacro "m" [])] = err0 "RecursionLimit" /\
  assemble [ROp (AOp 0x60 (Some (EDivide (ENum 1) (ENum 0))))] = err0 "DivisionByZero".
Proof. repeat split; vm_compute; reflexivity. Qed.

(* ---- the statement parser (pest) ---- *)

(* asm.pest, as read by the translator, passes the well-formedness check: every rule reference is
   defined, no rule reaches itself before consuming input (no left recursion, implicit
   WHITESPACE / COMMENT skips included), no repetition has a body that can match the empty string *)
Theorem C14_peg_asm_grammar_wf : wf_grammar asm_grammar = true.
Proof. exact asm_grammar_wf. Qed.
Print Assumptions C14_peg_asm_grammar_wf.

(* termination of well-formed PEGs, for pest's dialect: for EVERY grammar that passes the check the
   interpreter returns pairs or a parse error on every input with the fuel
   enough_fuel = (|input| + 1) * (#rules + 2): it neither runs out of fuel (unbounded recursion of
   the generated parser) nor repeats an empty match for ever *)
Theorem C14_peg_total : forall g start input,
  wf_grammar g = true -> find_rule (compile g) start <> None ->
  exists o, peg_parse g start input = Ok o.
Proof. exact peg_parse_total. Qed.
Print Assumptions C14_peg_total.

Theorem C14_peg_fuel_suffices : forall g start input,
  wf_grammar g = true ->
  exists r, peg_parse_fuel (enough_fuel g input) g start input = r /\
            r <> Panic "out of fuel" /\ r <> Panic "empty repetition".
Proof. exact peg_parse_fuel_suffices. Qed.
Print Assumptions C14_peg_fuel_suffices.

(* AsmParser::parse(Rule::program, src), for every byte string: pairs or a parse error *)
Theorem C14_parser_never_panics : forall input, exists o, parse_program input = Ok o.
Proof. exact parse_program_total. Qed.
Print Assumptions C14_parser_never_panics.

(* non-vacuity: the check refuses a left-recursive grammar and an empty repetition, on which the
   interpreter does panic; the model on a statement with an implicit skip and a comment *)
Example C14_peg_example :
  let lrec := [("a", MNormal, PChoice (PSeq (PRef "a") (PStr (str_bytes "x"))) (PStr (str_bytes "y")))] in
  let erep := [("a", MNormal, PStar (POpt (PStr (str_bytes "x"))))] in
  wf_grammar lrec = false /\ peg_parse lrec "a" (str_bytes "yx") = Panic "out of fuel" /\
  wf_grammar erep = false /\ peg_parse erep "a" (str_bytes "y") = Panic "empty repetition" /\
  run_peg (str_bytes "push1 1 + f(2)# c") =
    "push:0-14 word_size:4-5 expression:6-14 decimal:6-7 plus:8-9 expression_macro:10-14 function_name:10-11 expression:12-13 decimal:12-13 EOI:17-17"%string /\
  run_peg (str_bytes "push1  1") = "err"%string.
Proof. repeat split; vm_compute; reflexivity. Qed.

Check C14_eval_never_panics : forall labels macros fuel vars e s,
  eval labels macros fuel vars e <> Panic s.
Check C14_layout_terminates : forall macros items, exists w pos, layout macros items = Ok (w, pos).
Check C14_finish_never_panics : forall macros st s, finish_scope macros st <> Panic s.
Check C14_assemble_never_panics : forall ops s, assemble ops <> Panic s.
Check C14_ingest_never_panics : forall ops s, ingest_ast ops <> Panic s.
Check C14_peg_asm_grammar_wf : wf_grammar asm_grammar = true.
Check C14_peg_total : forall g start input,
  wf_grammar g = true -> find_rule (compile g) start <> None ->
  exists o, peg_parse g start input = Ok o.
Check C14_peg_fuel_suffices : forall g start input,
  wf_grammar g = true ->
  exists r, peg_parse_fuel (enough_fuel g input) g start input = r /\
            r <> Panic "out of fuel" /\ r <> Panic "empty repetition".
Check C14_parser_never_panics : forall input, exists o, parse_program input = Ok o.
