(* Props/C15.v -- The analysis pipeline is total on arbitrary bytecode.

   Model: Model/Pipeline.v (Disassembler -> Separator -> AnnotatedBlock::annotate per block ->
   ControlFlowGraph::new -> refine_shallow; the solver is an arbitrary function).  A `Panic`
   result of the model stands for a Rust panic (assert!, unwrap, unreachable!, todo!, arithmetic
   overflow, index out of bounds) at the named site.

   The code is any byte string of at most 65536 bytes (the EVM limit is 24576) in which no basic
   block has more than 9359 instructions.  The second bound is needed: see C15_deep_block_refuted
   (KNOWN FINDING class=deep-block, Props/C15Deep.v). *)
From Verif Require Import Model.Base Model.Ops Model.Disasm Model.Blocks Model.Sym Model.SymTree
  Model.Annot Spec.SmtBv Model.Z3Tr Model.Cfg Model.Pipeline
  Proofs.DisasmProofs Proofs.BlocksProofs Proofs.AnnotProofs Proofs.AnnotTotalProofs
  Proofs.CfgProofs Proofs.PipelineProofs Props.C15Deep.
From Coq Require Import Lia ZifyNat ZifyN.
Open Scope N_scope.

(* whatever the solver answers (Sat, Unsat, Unknown: any function), whatever the bytes *)
Theorem C15_pipeline_total : forall solver code,
  Forall (fun b => b < 256) code -> N.of_nat (length code) <= 65536 ->
  Forall (fun b => (length (b_ops b) <= 9359)%nat) (blocks_of code) ->
  exists g, pipeline solver code = Ok g.
Proof. exact pipeline_never_panics. Qed.
Print Assumptions C15_pipeline_total.

(* in particular every code of at most 9359 bytes, with no side condition *)
Theorem C15_small_code_total : forall solver code,
  Forall (fun b => b < 256) code -> (length code <= 9359)%nat ->
  exists g, pipeline solver code = Ok g.
Proof.
  intros solver code Hb Hl. apply pipeline_never_panics; [exact Hb| |now apply small_code_short_blocks].
  assert (E : N.of_nat 9359 = 9359) by (vm_compute; reflexivity).
  assert (L : N.of_nat (length code) <= N.of_nat 9359) by lia.
  rewrite E in L. lia.
Qed.
Print Assumptions C15_small_code_total.

(* the annotator alone, for every block the separator can deliver (any opcode bytes, including
   the undefined ones and the Cancun bytes the table lacks): no drop-time count mismatch, no
   exit/metadata mismatch, no `is_last` failure, no missing arm *)
Theorem C15_annotate_total : forall off ops,
  ops <> [] -> Forall wf_item ops -> Forall (fun it => (i_code it < 256)%N) ops ->
  jmp_only_last cancun_jmp ops -> (length ops <= 9359)%nat ->
  (off + block_size (mkblock off ops) <= 65536)%N ->
  exists a, annotate off ops = Ok a.
Proof.
  intros off ops H1 H2 H3 H4 H5 H6.
  destruct (annotate_never_panics off ops H1 H2 H3 H4 H5 H6) as (a & E & _). eauto.
Qed.
Print Assumptions C15_annotate_total.

(* the graph construction: distinct block offsets suffice for ControlFlowGraph::new, and exits
   whose expressions translate suffice for refine_shallow (no unreachable!(), no unwrap_block) *)
Theorem C15_cfg_total : forall solver blocks,
  NoDup (map ab_off blocks) -> Forall exit_translates blocks ->
  exists g g', cfg_new blocks = Ok g /\ refine solver g = Ok g'.
Proof.
  intros solver blocks Nd Tr. destruct (cfg_new_total blocks Nd) as [g Eg].
  destruct (refine_total solver blocks g Eg Tr) as [g' Eg']. eauto.
Qed.
Print Assumptions C15_cfg_total.

(* every translation arm exists: the traversal of any arity-respecting expression yields a term *)
Theorem C15_translation_total : forall t n, arity_tree t = true ->
  exists r, tr_sexpr_from n (encode_tree t) = Ok r.
Proof. intros t n Ha. apply tr_encoded. eauto. Qed.
Print Assumptions C15_translation_total.

(* KNOWN FINDING class=deep-block (proved in Props/C15Deep.v by evaluation of the model): the
   bound on the block length is needed -- 10923 consecutive LOG4 make the annotator panic *)
Theorem C15_block_bound_needed : exists code,
  Forall (fun b => b < 256) code /\ N.of_nat (length code) <= 24576 /\
  forall solver, pipeline solver code = Panic "attempt to add with overflow".
Proof. exact C15_deep_block_refuted. Qed.
Print Assumptions C15_block_bound_needed.

(* non-vacuity: mstore8, log2, signextend feeding a jump target, an undefined byte, tload, a
   truncated push -- three blocks, the pipeline completes *)
Example C15_example :
  let code := [0x5b; 0x60; 0x01; 0x60; 0x02; 0x53; 0x60; 0x00; 0x80; 0x80; 0x80; 0xa2;
               0x60; 0x0e; 0x60; 0x00; 0x0b; 0x56; 0x5b; 0x5c; 0x0c; 0x7f; 0x01] in
  Forall (fun b => b < 256) code /\ (length code <= 9359)%nat /\
  length (blocks_of code) = 3%nat /\
  exists g, pipeline (fun _ => false) code = Ok g /\ length (g_blocks g) = 3%nat.
Proof.
  cbv zeta. split; [repeat constructor|]. split; [apply Nat.leb_le; vm_compute; reflexivity|].
  split; [vm_compute; reflexivity|]. eexists. split; vm_compute; reflexivity.
Qed.

Check C15_pipeline_total : forall solver code,
  Forall (fun b => b < 256) code -> N.of_nat (length code) <= 65536 ->
  Forall (fun b => (length (b_ops b) <= 9359)%nat) (blocks_of code) ->
  exists g, pipeline solver code = Ok g.
Check C15_small_code_total : forall solver code,
  Forall (fun b => b < 256) code -> (length code <= 9359)%nat ->
  exists g, pipeline solver code = Ok g.
Check C15_annotate_total : forall off ops,
  ops <> [] -> Forall wf_item ops -> Forall (fun it => (i_code it < 256)%N) ops ->
  jmp_only_last cancun_jmp ops -> (length ops <= 9359)%nat ->
  (off + block_size (mkblock off ops) <= 65536)%N ->
  exists a, annotate off ops = Ok a.
Check C15_cfg_total : forall solver blocks,
  NoDup (map ab_off blocks) -> Forall exit_translates blocks ->
  exists g g', cfg_new blocks = Ok g /\ refine solver g = Ok g'.
Check C15_translation_total : forall t n, arity_tree t = true ->
  exists r, tr_sexpr_from n (encode_tree t) = Ok r.
Check C15_block_bound_needed : exists code,
  Forall (fun b => b < 256) code /\ N.of_nat (length code) <= 24576 /\
  forall solver, pipeline solver code = Panic "attempt to add with overflow".
