(* Props/C20.v -- The control-flow graph is structurally well formed. *)
From Coq Require Import Permutation.
From Verif Require Import Model.Base Model.Sym Spec.SmtBv Model.Z3Tr Model.Cfg Proofs.CfgProofs.
Open Scope Z_scope.

(* For any list of annotated blocks on which ControlFlowGraph::new does not hit its duplicate-
   offset assertion: one node per block (plus <terminate> and <bad-jump>), block offsets are
   distinct, there are no parallel edges, every edge leaves a BLOCK (the two special nodes
   have no successors) and leads only to <terminate>, <bad-jump>, a jumpdest-headed block, or
   the block that follows the source in the code (its fall-through offset). *)
Theorem C20_structure : forall blocks g,
  cfg_new blocks = Ok g ->
  Permutation (rev blocks) (g_blocks g) /\
  NoDup (offsets (g_blocks g)) /\
  NoDup (g_edges g) /\
  (forall e, In e (g_edges g) ->
     exists b, In b (g_blocks g) /\ edge_ok (g_blocks g) (jts_of blocks) b e) /\
  (forall t, In t (jts_of blocks) -> exists b, In b (g_blocks g) /\ ab_jt b = true /\ ab_off b = t).
Proof. exact cfg_new_wf. Qed.
Print Assumptions C20_structure.

Theorem C20_special_nodes_have_no_successors : forall blocks g e,
  cfg_new blocks = Ok g -> In e (g_edges g) -> fst e <> NTerm /\ fst e <> NBad.
Proof. exact special_nodes_no_successors. Qed.
Print Assumptions C20_special_nodes_have_no_successors.

(* refinement keeps the nodes and only removes edges *)
Theorem C20_refine_subgraph : forall solver g g',
  refine solver g = Ok g' ->
  g_blocks g' = g_blocks g /\ (forall e, In e (g_edges g') -> In e (g_edges g)) /\
  (NoDup (g_edges g) -> NoDup (g_edges g')).
Proof. exact refine_subgraph. Qed.
Print Assumptions C20_refine_subgraph.

(* after refinement with ANY sound solver (Unsat only for unsatisfiable queries) every block
   still has at least one successor *)
Theorem C20_every_block_keeps_a_successor : forall solver, sound solver ->
  forall blocks g g', cfg_new blocks = Ok g -> refine solver g = Ok g' ->
  (forall b, In b (g_blocks g) -> 0 <= ab_off b < 2 ^ 256) ->
  (forall b c t f, In b (g_blocks g) -> ab_exit b = ABranch c t f -> 0 <= f < 2 ^ 256) ->
  forall b, In b (g_blocks g) -> exists e, In e (g_edges g') /\ fst e = NBlock (ab_off b).
Proof. intros solver Hs blocks g g' H1 H2 H3 H4. exact (every_block_keeps_a_successor solver Hs blocks g g' H1 H2 H3 H4). Qed.
Print Assumptions C20_every_block_keeps_a_successor.

(* a block that ends by halting or falling through has exactly its one mandatory edge *)
Theorem C20_mandatory_successor : forall sorted jts b,
  (ab_exit b = ATerminate -> block_edges sorted jts b = [(NBlock (ab_off b), NTerm)]) /\
  (forall f, ab_exit b = AFallThrough f ->
     block_edges sorted jts b = [(NBlock (ab_off b), match find_block sorted f with Some _ => NBlock f | None => NTerm end)]).
Proof. exact mandatory_edge. Qed.
Print Assumptions C20_mandatory_successor.

Theorem C20_edges_come_from_their_block : forall blocks g b e,
  cfg_new blocks = Ok g -> In b (g_blocks g) -> In e (g_edges g) -> fst e = NBlock (ab_off b) ->
  In e (block_edges (g_blocks g) (jts_of blocks) b).
Proof. exact edges_from_block. Qed.
Print Assumptions C20_edges_come_from_their_block.

Example C20_example :
  let b0 := mkab 0 false (ABranch [SVar 1] [SConst 4] 3) in
  let b3 := mkab 3 false ATerminate in
  let b4 := mkab 4 true (AUnconditional [SVar 1]) in
  run_cfg_new [b0; b3; b4] =
  "ok:Offset: 0x0;Offset: 0x3;Offset: 0x4|Offset: 0x0 -> Offset: 0x3;Offset: 0x0 -> <bad-jump>;Offset: 0x0 -> Offset: 0x4;Offset: 0x3 -> <terminate>;Offset: 0x4 -> <bad-jump>;Offset: 0x4 -> Offset: 0x4".
Proof. vm_compute. reflexivity. Qed.

Check C20_structure : forall blocks g,
  cfg_new blocks = Ok g ->
  Permutation (rev blocks) (g_blocks g) /\ NoDup (offsets (g_blocks g)) /\ NoDup (g_edges g) /\
  (forall e, In e (g_edges g) -> exists b, In b (g_blocks g) /\ edge_ok (g_blocks g) (jts_of blocks) b e) /\
  (forall t, In t (jts_of blocks) -> exists b, In b (g_blocks g) /\ ab_jt b = true /\ ab_off b = t).
Check C20_special_nodes_have_no_successors : forall blocks g e,
  cfg_new blocks = Ok g -> In e (g_edges g) -> fst e <> NTerm /\ fst e <> NBad.
Check C20_refine_subgraph : forall solver g g',
  refine solver g = Ok g' ->
  g_blocks g' = g_blocks g /\ (forall e, In e (g_edges g') -> In e (g_edges g)) /\
  (NoDup (g_edges g) -> NoDup (g_edges g')).
Check C20_every_block_keeps_a_successor : forall solver, sound solver ->
  forall blocks g g', cfg_new blocks = Ok g -> refine solver g = Ok g' ->
  (forall b, In b (g_blocks g) -> 0 <= ab_off b < 2 ^ 256) ->
  (forall b c t f, In b (g_blocks g) -> ab_exit b = ABranch c t f -> 0 <= f < 2 ^ 256) ->
  forall b, In b (g_blocks g) -> exists e, In e (g_edges g') /\ fst e = NBlock (ab_off b).
Check C20_mandatory_successor : forall sorted jts b,
  (ab_exit b = ATerminate -> block_edges sorted jts b = [(NBlock (ab_off b), NTerm)]) /\
  (forall f, ab_exit b = AFallThrough f ->
     block_edges sorted jts b = [(NBlock (ab_off b), match find_block sorted f with Some _ => NBlock f | None => NTerm end)]).
Check C20_edges_come_from_their_block : forall blocks g b e,
  cfg_new blocks = Ok g -> In b (g_blocks g) -> In e (g_edges g) -> fst e = NBlock (ab_off b) ->
  In e (block_edges (g_blocks g) (jts_of blocks) b).
