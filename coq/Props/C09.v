(* Props/C09.v -- Out-of-range operands are rejected, never truncated. *)
From Coq Require Import Lia.
From Verif Require Import Model.Base Model.Ops Model.Expr Model.Asm Proofs.AsmLayoutProofs Proofs.AsmRangeProofs.
Open Scope Z_scope.

(* Success implies range: in every program that assembles, under the FINAL label values every
   pushN operand satisfies 0 <= v < 256^N and every %push operand 0 <= v < 256^w with w <= 32
   (hence v < 2^256), whether the operand was a constant or label dependent. *)
Theorem C09_success_implies_range : forall ops bytes,
  assemble ops = Ok bytes ->
  exists macros items w pos,
    declare_macros ops [] = Ok macros /\
    layout macros items = Ok (w, pos) /\
    emit macros (lenv pos) items w = Ok bytes /\
    widths_ok w /\
    Forall (operand_in_range macros (lenv pos)) (with_widths items w).
Proof. exact assemble_operands_in_range. Qed.
Print Assumptions C09_success_implies_range.

(* Rejection: a value outside the range is an error VALUE (never Ok, never Panic), for every
   width; a value inside is encoded as exactly N big-endian bytes whose value is v
   (nothing is wrapped, truncated or sign-converted). *)
Theorem C09_out_of_range_rejected : forall n spec v,
  ~ (0 <= v < 256 ^ Z.of_nat n) -> exists er, concretize_imm n spec v = Err er.
Proof. exact concretize_imm_rejects. Qed.
Print Assumptions C09_out_of_range_rejected.

Theorem C09_in_range_exact : forall n spec v,
  0 <= v < 256 ^ Z.of_nat n ->
  exists bs, concretize_imm n spec v = Ok bs /\ length bs = n /\ Z.of_N (N_of_be bs) = v.
Proof.
  intros n spec v H. exists (pad_left n (be_bytes (Z.to_N v))).
  split; [now apply concretize_imm_accepts|]. split.
  - apply pad_left_length. apply be_bytes_length_le. apply N2Z.inj_lt.
    rewrite Z2N.id, N2Z.inj_pow, nat_N_Z by lia. exact (proj2 H).
  - rewrite N_of_be_pad_left. apply Z2N.id. exact (proj1 H).
Qed.
Print Assumptions C09_in_range_exact.

Example C09_example :
  (exists e, assemble [ROp (AOp 0x60 (Some (ELabel "l")))] = Err e) /\
  assemble ([ROp (AOp 0x60 (Some (ELabel "l")))] ++ repeat (ROp (AOp 0x58 None)) 300 ++ [ROp (ALabel "l")])
             = Err (mkErr "ExpressionTooLarge" ["302"; "push1"]) /\
  assemble ([ROp (AOp 0x60 (Some (ELabel "l")))] ++ repeat (ROp (AOp 0x58 None)) 253 ++ [ROp (ALabel "l")])
    = Ok ([0x60; 0xff] ++ repeat 0x58 253)%N.
Proof. split; [eexists; vm_compute; reflexivity|]. split; vm_compute; reflexivity. Qed.

Check C09_success_implies_range : forall ops bytes,
  assemble ops = Ok bytes ->
  exists macros items w pos,
    declare_macros ops [] = Ok macros /\ layout macros items = Ok (w, pos) /\
    emit macros (lenv pos) items w = Ok bytes /\ widths_ok w /\
    Forall (operand_in_range macros (lenv pos)) (with_widths items w).
Check C09_out_of_range_rejected : forall n spec v,
  ~ (0 <= v < 256 ^ Z.of_nat n) -> exists er, concretize_imm n spec v = Err er.
Check C09_in_range_exact : forall n spec v,
  0 <= v < 256 ^ Z.of_nat n ->
  exists bs, concretize_imm n spec v = Ok bs /\ length bs = n /\ Z.of_N (N_of_be bs) = v.
