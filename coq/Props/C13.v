(* Props/C13.v -- Programs assemble exactly when well formed; faults yield the matching error.
   PARTIAL: proved are (a) success implies well-formedness, (b) for the layout/emission phase
   the exact equivalence "succeeds iff no undeclared label and every operand in range"
   (C13_finish_ok_iff), (c) the exact error for each kind of fault.  What is NOT proved is a
   declarative characterisation of when the READING phase (labels, macro expansion, early
   operand checks) succeeds: its success is taken as `push_op ... = Ok` rather than derived
   from a syntactic well-formedness predicate; that part is validated by the differential check. *)
From Coq Require Import Lia.
From Verif Require Import Model.Base Model.Ops Model.Expr Model.Asm
  Proofs.ExprEvalProofs Proofs.AsmLayoutProofs Proofs.AsmRangeProofs Proofs.AsmTotalProofs.
Open Scope Z_scope.

(* success => well formed: labels defined at most once, every label an operand mentions is
   declared in the scope (before or after its use), every operand evaluates -- so every macro
   it invokes exists with enough arguments and no divisor is zero -- and fits its push *)
Theorem C13_success_implies_well_formed_partial : forall ops bytes,
  assemble ops = Ok bytes ->
  exists macros st w pos,
    declare_macros ops [] = Ok macros /\
    push_inv st /\ a_undeclared st = [] /\
    layout macros (a_ready st) = Ok (w, pos) /\
    emit macros (lenv pos) (a_ready st) w = Ok bytes /\
    Forall (operand_in_range macros (lenv pos)) (with_widths (a_ready st) w).
Proof.
  intros ops bytes H. unfold assemble in H.
  destruct (assemble_with_inv _ _ _ H) as (macros & st & Hm & Hinv & Hf).
  unfold finish_scope in Hf. destruct (a_undeclared st) eqn:Eu; [|discriminate].
  destruct (layout macros (a_ready st)) as [[w pos]|er|s] eqn:El; cbn [bind fst snd] in Hf; try discriminate.
  exists macros, st, w, pos. repeat split; auto; try apply Hinv.
  pose proof (emit_each macros _ _ _ _ Hf) as Hall.
  eapply Forall_impl; [|exact Hall]. intros p [b Hb]. eapply emitted_in_range; exact Hb.
Qed.
Print Assumptions C13_success_implies_well_formed_partial.

(* EXACTLY WHEN, for the final phase: once the ops have been read (labels, macro expansion,
   early checks), assembly succeeds if and only if no used label is left undeclared and every
   operand evaluates to a value that fits its push under the labels the layout decides (the
   layout itself always exists: C14_layout_terminates). *)
Theorem C13_finish_ok_iff : forall macros st,
  (exists bytes, finish_scope macros st = Ok bytes) <->
  (a_undeclared st = [] /\
   exists w pos, layout macros (a_ready st) = Ok (w, pos) /\
     Forall (operand_in_range macros (lenv pos)) (with_widths (a_ready st) w)).
Proof. exact finish_scope_ok_iff. Qed.
Print Assumptions C13_finish_ok_iff.

(* each fault yields the matching error, naming the offender *)
Theorem C13_duplicate_label : forall macros fuel st l,
  mem l (a_declared st) = true -> push_op macros fuel st (ALabel l) = err1 "DuplicateLabel" l.
Proof. intros macros [|f] st l H; cbn [push_op]; now rewrite H. Qed.
Print Assumptions C13_duplicate_label.

Theorem C13_undeclared_instruction_macro : forall macros fuel st n args,
  (forall ps body, mlookup macros n <> Some (MI ps body)) ->
  push_op macros fuel st (AMacro n args) = err1 "UndeclaredInstructionMacro" n.
Proof.
  intros macros fuel st n args H. destruct fuel; cbn [push_op];
    (destruct (mlookup macros n) as [[ps body|d]|] eqn:E; [exfalso; exact (H ps body eq_refl)|reflexivity|reflexivity]).
Qed.
Print Assumptions C13_undeclared_instruction_macro.

Theorem C13_macro_argument_count : forall macros fuel st n args ps body,
  mlookup macros n = Some (MI ps body) -> length ps <> length args ->
  push_op macros fuel st (AMacro n args) = err1 "MacroArgumentCount" n.
Proof.
  intros macros fuel st n args ps body E Hl.
  assert (Hb : Nat.eqb (length ps) (length args) = false) by (now apply PeanoNat.Nat.eqb_neq).
  destruct fuel; cbn [push_op]; rewrite E, Hb; reflexivity.
Qed.
Print Assumptions C13_macro_argument_count.

Theorem C13_undeclared_labels : forall macros st l r,
  a_undeclared st = l :: r -> finish_scope macros st = Err (mkErr "UndeclaredLabels" (l :: r)).
Proof. intros macros st l r H. unfold finish_scope. now rewrite H. Qed.
Print Assumptions C13_undeclared_labels.

Theorem C13_division_by_zero : forall labels macros f vs a b x,
  eval labels macros f vs a = Ok x -> eval labels macros f vs b = Ok 0 ->
  eval labels macros f vs (EDivide a b) = err0 "DivisionByZero".
Proof. intros labels macros f vs a b x Ha Hb. rewrite eval_divide, Ha, Hb. reflexivity. Qed.
Print Assumptions C13_division_by_zero.

Theorem C13_unknown_expression_macro : forall labels macros f vs n args,
  (forall d, macros n <> Some (Some d)) ->
  eval labels macros f vs (EMacro n args) = err1 "UnknownMacro" n.
Proof.
  intros labels macros f vs n args H. rewrite eval_macro.
  destruct (macros n) as [[d|]|]; [exfalso; exact (H d eq_refl)|reflexivity|reflexivity].
Qed.
Print Assumptions C13_unknown_expression_macro.

Theorem C13_missing_argument : forall labels macros f x,
  eval labels macros f (Some []) (EVar x) = err1 "UndefinedVariable" x.
Proof. intros. rewrite eval_var. reflexivity. Qed.
Print Assumptions C13_missing_argument.

(* what is missing for the full equivalence, kept visible *)
Definition C13_partial_missing : Prop :=
  forall ops, (* wf ops, a declarative predicate *) True -> exists bytes, assemble ops = Ok bytes.

Example C13_example :
  assemble [ROp (ALabel "a"); ROp (AOp 0x58 None); ROp (AOp 0x60 (Some (EPlus (ELabel "a") (ELabel "b")))); ROp (ALabel "b")]
    = Ok [0x58; 0x60; 0x03]%N /\
  assemble [ROp (ALabel "a"); ROp (ALabel "a")] = err1 "DuplicateLabel" "a" /\
  assemble [ROp (AOp 0x60 (Some (EDivide (ENum 1) (ENum 0))))] = err0 "DivisionByZero".
Proof. repeat split; vm_compute; reflexivity. Qed.

Check C13_success_implies_well_formed_partial : forall ops bytes,
  assemble ops = Ok bytes ->
  exists macros st w pos,
    declare_macros ops [] = Ok macros /\ push_inv st /\ a_undeclared st = [] /\
    layout macros (a_ready st) = Ok (w, pos) /\
    emit macros (lenv pos) (a_ready st) w = Ok bytes /\
    Forall (operand_in_range macros (lenv pos)) (with_widths (a_ready st) w).
Check C13_duplicate_label : forall macros fuel st l,
  mem l (a_declared st) = true -> push_op macros fuel st (ALabel l) = err1 "DuplicateLabel" l.
Check C13_undeclared_instruction_macro : forall macros fuel st n args,
  (forall ps body, mlookup macros n <> Some (MI ps body)) ->
  push_op macros fuel st (AMacro n args) = err1 "UndeclaredInstructionMacro" n.
Check C13_macro_argument_count : forall macros fuel st n args ps body,
  mlookup macros n = Some (MI ps body) -> length ps <> length args ->
  push_op macros fuel st (AMacro n args) = err1 "MacroArgumentCount" n.
Check C13_undeclared_labels : forall macros st l r,
  a_undeclared st = l :: r -> finish_scope macros st = Err (mkErr "UndeclaredLabels" (l :: r)).
Check C13_division_by_zero : forall labels macros f vs a b x,
  eval labels macros f vs a = Ok x -> eval labels macros f vs b = Ok 0 ->
  eval labels macros f vs (EDivide a b) = err0 "DivisionByZero".
Check C13_unknown_expression_macro : forall labels macros f vs n args,
  (forall d, macros n <> Some (Some d)) ->
  eval labels macros f vs (EMacro n args) = err1 "UnknownMacro" n.
Check C13_missing_argument : forall labels macros f x,
  eval labels macros f (Some []) (EVar x) = err1 "UndefinedVariable" x.
Check C13_finish_ok_iff : forall macros st,
  (exists bytes, finish_scope macros st = Ok bytes) <->
  (a_undeclared st = [] /\
   exists w pos, layout macros (a_ready st) = Ok (w, pos) /\
     Forall (operand_in_range macros (lenv pos)) (with_widths (a_ready st) w)).
