(* Props/C13.v -- Programs assemble exactly when well formed; faults yield the matching error.
   FULL EQUIVALENCE (C13_assembles_iff_well_formed): for every syntax tree [ops],
   `assemble ops` returns bytes  <->  `wf_program ops`, a declarative predicate spelled out in
   C13_well_formed_means: in every scope (the program and, recursively, every nested scope)
     - no macro name is declared twice,
     - every instruction-macro invocation has an expansion (macro declared as an instruction
       macro, exactly as many arguments as parameters, nesting within the limit, no label
       defined twice in one body),
     - in the expanded scope every label is defined exactly once; every label and expression
       macro an operand mentions (directly, in arguments -- also surplus ones -- or through macro
       bodies) is defined in the scope, before or after the use; and under the label positions
       the layout decides, every operand has a value (no division by zero, no parameter read
       that the invocation did not supply, no variable outside a macro) that fits its push.
   Otherwise the result is an error value (C13_ill_formed_yields_error), the kind of which is
   given fault by fault by the theorems below.  The key step is that the check made when an op
   is READ (evaluation without labels) never disagrees with the final one
   (C13_evaluation_label_independent). *)
From Coq Require Import Lia.
From Verif Require Import Model.Base Model.Ops Model.Expr Model.Asm
  Proofs.ExprEvalProofs Proofs.AsmLayoutProofs Proofs.AsmRangeProofs Proofs.AsmTotalProofs
  Proofs.AsmMacroProofs Proofs.AsmWfProofs.
Open Scope Z_scope.

(* success => well formed: labels defined at most once, every label an operand mentions is
   declared in the scope (before or after its use), every operand evaluates -- so every macro
   it invokes exists with enough arguments and no divisor is zero -- and fits its push *)
Theorem C13_success_gives_layout_witness : forall ops bytes,
  assemble ops = Ok bytes ->
  exists macros st w pos,
    declare_macros ops [] = Ok macros /\
    push_inv st /\ a_undeclared st = [] /\
    layout macros (a_ready st) = Ok (w, pos) /\
    emit macros (lenv pos) (a_ready st) w = Ok bytes /\
    Forall (operand_in_range macros (lenv pos)) (with_widths (a_ready st) w).
Proof.
  intros ops bytes H. unfold assemble in H.
  destruct (assemble_with_inv _ _ _ H) as (macros & st & Hm & Hinv & Hf).
  unfold finish_scope in Hf. destruct (a_undeclared st) eqn:Eu; [|discriminate].
  destruct (layout macros (a_ready st)) as [[w pos]|er|s] eqn:El; cbn [bind fst snd] in Hf; try discriminate.
  exists macros, st, w, pos. repeat split; auto; try apply Hinv.
  pose proof (emit_each macros _ _ _ _ Hf) as Hall.
  eapply Forall_impl; [|exact Hall]. intros p [b Hb]. eapply emitted_in_range; exact Hb.
Qed.
Print Assumptions C13_success_gives_layout_witness.

(* EXACTLY WHEN, for the final phase: once the ops have been read (labels, macro expansion,
   early checks), assembly succeeds if and only if no used label is left undeclared and every
   operand evaluates to a value that fits its push under the labels the layout decides (the
   layout itself always exists: C14_layout_terminates). *)
Theorem C13_finish_ok_iff : forall macros st,
  (exists bytes, finish_scope macros st = Ok bytes) <->
  (a_undeclared st = [] /\
   exists w pos, layout macros (a_ready st) = Ok (w, pos) /\
     Forall (operand_in_range macros (lenv pos)) (with_widths (a_ready st) w)).
Proof. exact finish_scope_ok_iff. Qed.
Print Assumptions C13_finish_ok_iff.

(* each fault yields the matching error, naming the offender *)
Theorem C13_duplicate_label : forall macros fuel st l,
  mem l (a_declared st) = true -> push_op macros fuel st (ALabel l) = err1 "DuplicateLabel" l.
Proof. intros macros [|f] st l H; cbn [push_op]; now rewrite H. Qed.
Print Assumptions C13_duplicate_label.

Theorem C13_undeclared_instruction_macro : forall macros fuel st n args,
  (forall ps body, mlookup macros n <> Some (MI ps body)) ->
  push_op macros fuel st (AMacro n args) = err1 "UndeclaredInstructionMacro" n.
Proof.
  intros macros fuel st n args H. destruct fuel; cbn [push_op];
    (destruct (mlookup macros n) as [[ps body|d]|] eqn:E; [exfalso; exact (H ps body eq_refl)|reflexivity|reflexivity]).
Qed.
Print Assumptions C13_undeclared_instruction_macro.

Theorem C13_macro_argument_count : forall macros fuel st n args ps body,
  mlookup macros n = Some (MI ps body) -> length ps <> length args ->
  push_op macros fuel st (AMacro n args) = err1 "MacroArgumentCount" n.
Proof.
  intros macros fuel st n args ps body E Hl.
  assert (Hb : Nat.eqb (length ps) (length args) = false) by (now apply PeanoNat.Nat.eqb_neq).
  destruct fuel; cbn [push_op]; rewrite E, Hb; reflexivity.
Qed.
Print Assumptions C13_macro_argument_count.

Theorem C13_undeclared_labels : forall macros st l r,
  a_undeclared st = l :: r -> finish_scope macros st = Err (mkErr "UndeclaredLabels" (l :: r)).
Proof. intros macros st l r H. unfold finish_scope. now rewrite H. Qed.
Print Assumptions C13_undeclared_labels.

Theorem C13_division_by_zero : forall labels macros f vs a b x,
  eval labels macros f vs a = Ok x -> eval labels macros f vs b = Ok 0 ->
  eval labels macros f vs (EDivide a b) = err0 "DivisionByZero".
Proof. intros labels macros f vs a b x Ha Hb. rewrite eval_divide, Ha, Hb. reflexivity. Qed.
Print Assumptions C13_division_by_zero.

Theorem C13_unknown_expression_macro : forall labels macros f vs n args,
  (forall d, macros n <> Some (Some d)) ->
  eval labels macros f vs (EMacro n args) = err1 "UnknownMacro" n.
Proof.
  intros labels macros f vs n args H. rewrite eval_macro.
  destruct (macros n) as [[d|]|]; [exfalso; exact (H d eq_refl)|reflexivity|reflexivity].
Qed.
Print Assumptions C13_unknown_expression_macro.

(* "at least as many arguments for expression macros": an invocation with fewer arguments than
   the macro has parameters never has a value -- whether or not the body reads the parameter left
   over -- and when the arguments that are there evaluate, the error names the first parameter
   without argument (D32: before its `fix:` commit such an invocation was accepted when the body
   did not read the parameter) *)
Theorem C13_expression_macro_arity : forall labels macros f vs n args d v,
  macros n = Some (Some d) -> (length args < length (em_params d))%nat ->
  eval labels macros f vs (EMacro n args) <> Ok v.
Proof. exact macro_arity. Qed.
Print Assumptions C13_expression_macro_arity.

Theorem C13_expression_macro_missing_argument : forall labels macros f vs n args d vals,
  macros n = Some (Some d) -> (length args < length (em_params d))%nat ->
  Forall2 (fun a v => eval labels macros (S f) vs a = Ok v) args vals ->
  eval labels macros (S f) vs (EMacro n args) = err1 "UndefinedVariable" (nth (length args) (em_params d) "").
Proof.
  intros labels macros f vs n args d vals Hd Hl Hv. rewrite eval_macro, Hd.
  rewrite (bind_args_missing labels macros (S f) vs args (em_params d) [] vals Hv Hl). reflexivity.
Qed.
Print Assumptions C13_expression_macro_missing_argument.

Theorem C13_missing_argument : forall labels macros f x,
  eval labels macros f (Some []) (EVar x) = err1 "UndefinedVariable" x.
Proof. intros. rewrite eval_var. reflexivity. Qed.
Print Assumptions C13_missing_argument.

(* ---------- EXACTLY WHEN ---------- *)
(* a program assembles if and only if it is well formed *)
Theorem C13_assembles_iff_well_formed : forall ops,
  (exists bytes, assemble ops = Ok bytes) <-> wf_program ops.
Proof. exact assemble_ok_iff_wf. Qed.
Print Assumptions C13_assembles_iff_well_formed.

(* otherwise it yields an error value (not a panic), hence no output bytes *)
Theorem C13_ill_formed_yields_error : forall ops,
  ~ wf_program ops -> exists er, assemble ops = Err er.
Proof. exact not_wf_error. Qed.
Print Assumptions C13_ill_formed_yields_error.

(* what [wf_program] says, in full: [expand_raws] is the textual expansion of the scope's
   instruction-macro invocations (Proofs/AsmMacroProofs.expand_op, the reference of C10), with
   every nested scope standing for the bytes it assembles to; [labels_of items] are the labels
   the expanded scope defines; [elabels] lists the labels an operand mentions, through
   expression-macro bodies and arguments; [operand_in_range] = the operand evaluates to a value
   0 <= v < 256^width *)
Theorem C13_well_formed_means : forall ops,
  wf_program ops <->
  ((forall inner, In (RScope inner) ops -> wf_program inner) /\
   NoDup (macro_names ops) /\
   exists items c,
     expand_raws (macro_defs ops) nested_bytes 0 ops = Ok (items, c) /\
     NoDup (labels_of items) /\
     Forall (fun it => forall e, item_operand it = Some e ->
               exists ls, elabels (menv_of (macro_defs ops)) MACRO_DEPTH_LIMIT e = Ok ls /\
                          incl ls (labels_of items)) items /\
     exists w pos, layout (macro_defs ops) items = Ok (w, pos) /\
       Forall (operand_in_range (macro_defs ops) (lenv pos)) (with_widths items w)).
Proof. intros ops. rewrite wf_program_unfold'. reflexivity. Qed.
Print Assumptions C13_well_formed_means.

(* when the expansion of a scope exists: every invocation names a macro declared as an
   INSTRUCTION macro, with exactly as many arguments as parameters, whose body defines no label
   twice and whose own invocations are expandable with one nesting level less (256 levels) *)
Theorem C13_expansion_exists_iff : forall macros sub l c,
  (exists r, expand_raws macros sub c l = Ok r) <->
  (forall a, In (ROp a) l -> expandable macros EXPANSION_FUEL a).
Proof. exact expand_raws_ok_iff. Qed.
Print Assumptions C13_expansion_exists_iff.

Theorem C13_expandable_invocation : forall macros fuel n args,
  expandable macros fuel (AMacro n args) <->
  exists f ps body, fuel = S f /\ mlookup macros n = Some (MI ps body) /\
    length ps = length args /\ NoDup (body_labels body) /\ Forall (expandable macros f) body.
Proof. exact expandable_macro_iff. Qed.
Print Assumptions C13_expandable_invocation.

(* the macro table of a scope exists iff no macro name is declared twice in it *)
Theorem C13_macros_declared_once : forall ops m,
  declare_macros ops [] = Ok m <-> (NoDup (macro_names ops) /\ m = macro_defs ops).
Proof. exact declare_macros_ok_iff. Qed.
Print Assumptions C13_macros_declared_once.

(* one scope without invocations (labels, ops, %push, macro definitions): reading, layout and
   emission succeed iff the flat list is well formed *)
Theorem C13_flat_scope_iff : forall macros ops, all_flat ops ->
  ((exists st bytes, push_flat macros ops ainit = Ok st /\ finish_scope macros st = Ok bytes) <->
   wf_items macros (flat_map item_of ops)).
Proof. exact flat_ok_iff. Qed.
Print Assumptions C13_flat_scope_iff.

(* one scope with invocations, raw bytes and nested scopes, given what the nested scopes
   assemble to *)
Theorem C13_scope_iff : forall macros rec sub l,
  (forall inner, In (RScope inner) l -> rec (RScope inner) = Ok (sub (RScope inner))) ->
  ((exists st bytes, push_raws macros rec l ainit = Ok st /\ finish_scope macros st = Ok bytes) <->
   wf_scope macros sub l).
Proof. exact scope_ok_iff. Qed.
Print Assumptions C13_scope_iff.

(* evaluation does not depend on the labels until the first label lookup: the check made when
   an op is read (no labels known) either gives the final verdict or is postponed *)
Theorem C13_evaluation_label_independent : forall labels menv f vs e,
  eval labels menv f vs e = eval no_labels menv f vs e \/
  exists l, eval no_labels menv f vs e = err1 "UnknownLabel" l.
Proof. exact eval_label_independent. Qed.
Print Assumptions C13_evaluation_label_independent.

(* Ingest::ingest on a syntax tree: the parser's constant range check, then the above *)
Theorem C13_ingest_iff : forall ops,
  (exists bytes, ingest_ast ops = Ok bytes) <-> (parse_check ops = Ok tt /\ wf_program ops).
Proof. exact ingest_ok_iff_wf. Qed.
Print Assumptions C13_ingest_iff.

(* ---------- non-vacuity ---------- *)
(* backward + forward reference in one operand, an instruction macro with a local label and a
   parameter, an expression macro, a nested scope reusing a label name *)
Definition C13_good : list rawop :=
  [ ROp (AMacroDefE "twice" ["x"] (ETimes (EVar "x") (ENum 2)));
    ROp (AMacroDefI "guard" ["t"]
           [ALabel "chk"; AOp 0x5b None; AOp 0x61 (Some (EVar "t")); APush (ELabel "chk")]);
    ROp (ALabel "start"); ROp (AOp 0x5b None);
    ROp (AOp 0x61 (Some (EPlus (ELabel "start") (ELabel "end"))));
    ROp (AMacro "guard" [ELabel "end"]);
    ROp (AOp 0x60 (Some (EMacro "twice" [ENum 21])));
    RScope [ROp (ALabel "start"); ROp (APush (ELabel "start"))];
    ROp (AMacro "guard" [EMacro "twice" [ELabel "start"]]);
    ROp (ALabel "end"); ROp (AOp 0x5b None) ].

Ltac c13_ill H := apply C13_assembles_iff_well_formed in H; destruct H as [b H]; vm_compute in H; discriminate.

Example C13_example :
  assemble [ROp (ALabel "a"); ROp (AOp 0x58 None); ROp (AOp 0x60 (Some (EPlus (ELabel "a") (ELabel "b")))); ROp (ALabel "b")]
    = Ok [0x58; 0x60; 0x03]%N /\
  assemble [ROp (ALabel "a"); ROp (ALabel "a")] = err1 "DuplicateLabel" "a" /\
  assemble [ROp (AOp 0x60 (Some (EDivide (ENum 1) (ENum 0))))] = err0 "DivisionByZero" /\
  (* a well-formed program *)
  wf_program C13_good /\
  assemble C13_good = Ok [0x5b; 0x61; 0x00; 0x14; 0x5b; 0x61; 0x00; 0x14; 0x60; 0x04; 0x60; 0x2a;
                          0x60; 0x00; 0x5b; 0x61; 0x00; 0x00; 0x60; 0x0e; 0x5b]%N /\
  (* ill-formed ones: a label defined twice; a label used only inside an expression-macro body
     and defined nowhere; a label in a SURPLUS argument defined nowhere; an invocation with too
     few arguments; `push1 lbl + 1/0` (all labels defined, fails only at layout time) and
     `push1 1/0 + lbl` (fails when read); a variable outside a macro; an instruction macro
     used as an expression macro; a parent's label used in a nested scope *)
  ~ wf_program [ROp (ALabel "a"); ROp (ALabel "a")] /\
  ~ wf_program [ROp (AMacroDefE "f" [] (ELabel "lbl")); ROp (AOp 0x60 (Some (EMacro "f" [])))] /\
  ~ wf_program [ROp (AMacroDefE "g" ["x"] (EVar "x")); ROp (AOp 0x60 (Some (EMacro "g" [ENum 1; ELabel "nowhere"])))] /\
  ~ wf_program [ROp (AMacroDefI "m" ["p"] [AOp 0x58 None]); ROp (AMacro "m" [])] /\
  ~ wf_program [ROp (AOp 0x60 (Some (EPlus (ELabel "lbl") (EDivide (ENum 1) (ENum 0))))); ROp (ALabel "lbl")] /\
  ~ wf_program [ROp (AOp 0x60 (Some (EPlus (EDivide (ENum 1) (ENum 0)) (ELabel "lbl")))); ROp (ALabel "lbl")] /\
  ~ wf_program [ROp (AOp 0x60 (Some (EVar "x")))] /\
  ~ wf_program [ROp (AMacroDefI "m" [] [AOp 0x58 None]); ROp (AOp 0x60 (Some (EMacro "m" [])))] /\
  ~ wf_program [ROp (ALabel "lbl"); RScope [ROp (APush (ELabel "lbl"))]] /\
  (* an expression macro invoked with FEWER arguments than parameters, although its body does
     not read the missing parameter (accepted before the `fix:` commit of D32) *)
  ~ wf_program [ROp (AMacroDefE "h" ["x"] (ENum 5)); ROp (AOp 0x60 (Some (EMacro "h" [])))] /\
  assemble [ROp (AMacroDefE "h" ["x"] (ENum 5)); ROp (AOp 0x60 (Some (EMacro "h" [])))] = err1 "UndeclaredVariableMacro" "x" /\
  (* accepted, as the code does: a surplus argument that would divide by zero (it is never
     evaluated) *)
  assemble [ROp (AMacroDefE "g" ["x"] (EVar "x")); ROp (AOp 0x60 (Some (EMacro "g" [ENum 1; EDivide (ENum 1) (ENum 0)])))]
    = Ok [0x60; 0x01]%N.
Proof.
  split; [vm_compute; reflexivity|]. split; [vm_compute; reflexivity|]. split; [vm_compute; reflexivity|].
  split; [apply C13_assembles_iff_well_formed; eexists; vm_compute; reflexivity|].
  split; [vm_compute; reflexivity|].
  repeat (split; [intros H; c13_ill H|]).
  split; vm_compute; reflexivity.
Qed.

Check C13_expression_macro_arity : forall labels macros f vs n args d v,
  macros n = Some (Some d) -> (length args < length (em_params d))%nat ->
  eval labels macros f vs (EMacro n args) <> Ok v.
Check C13_expression_macro_missing_argument : forall labels macros f vs n args d vals,
  macros n = Some (Some d) -> (length args < length (em_params d))%nat ->
  Forall2 (fun a v => eval labels macros (S f) vs a = Ok v) args vals ->
  eval labels macros (S f) vs (EMacro n args) = err1 "UndefinedVariable" (nth (length args) (em_params d) "").
Check C13_success_gives_layout_witness : forall ops bytes,
  assemble ops = Ok bytes ->
  exists macros st w pos,
    declare_macros ops [] = Ok macros /\ push_inv st /\ a_undeclared st = [] /\
    layout macros (a_ready st) = Ok (w, pos) /\
    emit macros (lenv pos) (a_ready st) w = Ok bytes /\
    Forall (operand_in_range macros (lenv pos)) (with_widths (a_ready st) w).
Check C13_duplicate_label : forall macros fuel st l,
  mem l (a_declared st) = true -> push_op macros fuel st (ALabel l) = err1 "DuplicateLabel" l.
Check C13_undeclared_instruction_macro : forall macros fuel st n args,
  (forall ps body, mlookup macros n <> Some (MI ps body)) ->
  push_op macros fuel st (AMacro n args) = err1 "UndeclaredInstructionMacro" n.
Check C13_macro_argument_count : forall macros fuel st n args ps body,
  mlookup macros n = Some (MI ps body) -> length ps <> length args ->
  push_op macros fuel st (AMacro n args) = err1 "MacroArgumentCount" n.
Check C13_undeclared_labels : forall macros st l r,
  a_undeclared st = l :: r -> finish_scope macros st = Err (mkErr "UndeclaredLabels" (l :: r)).
Check C13_division_by_zero : forall labels macros f vs a b x,
  eval labels macros f vs a = Ok x -> eval labels macros f vs b = Ok 0 ->
  eval labels macros f vs (EDivide a b) = err0 "DivisionByZero".
Check C13_unknown_expression_macro : forall labels macros f vs n args,
  (forall d, macros n <> Some (Some d)) ->
  eval labels macros f vs (EMacro n args) = err1 "UnknownMacro" n.
Check C13_missing_argument : forall labels macros f x,
  eval labels macros f (Some []) (EVar x) = err1 "UndefinedVariable" x.
Check C13_finish_ok_iff : forall macros st,
  (exists bytes, finish_scope macros st = Ok bytes) <->
  (a_undeclared st = [] /\
   exists w pos, layout macros (a_ready st) = Ok (w, pos) /\
     Forall (operand_in_range macros (lenv pos)) (with_widths (a_ready st) w)).
Check C13_assembles_iff_well_formed : forall ops,
  (exists bytes, assemble ops = Ok bytes) <-> wf_program ops.
Check C13_ill_formed_yields_error : forall ops,
  ~ wf_program ops -> exists er, assemble ops = Err er.
Check C13_well_formed_means : forall ops,
  wf_program ops <->
  ((forall inner, In (RScope inner) ops -> wf_program inner) /\
   NoDup (macro_names ops) /\
   exists items c,
     expand_raws (macro_defs ops) nested_bytes 0 ops = Ok (items, c) /\
     NoDup (labels_of items) /\
     Forall (fun it => forall e, item_operand it = Some e ->
               exists ls, elabels (menv_of (macro_defs ops)) MACRO_DEPTH_LIMIT e = Ok ls /\
                          incl ls (labels_of items)) items /\
     exists w pos, layout (macro_defs ops) items = Ok (w, pos) /\
       Forall (operand_in_range (macro_defs ops) (lenv pos)) (with_widths items w)).
Check C13_macros_declared_once : forall ops m,
  declare_macros ops [] = Ok m <-> (NoDup (macro_names ops) /\ m = macro_defs ops).
Check C13_flat_scope_iff : forall macros ops, all_flat ops ->
  ((exists st bytes, push_flat macros ops ainit = Ok st /\ finish_scope macros st = Ok bytes) <->
   wf_items macros (flat_map item_of ops)).
Check C13_scope_iff : forall macros rec sub l,
  (forall inner, In (RScope inner) l -> rec (RScope inner) = Ok (sub (RScope inner))) ->
  ((exists st bytes, push_raws macros rec l ainit = Ok st /\ finish_scope macros st = Ok bytes) <->
   wf_scope macros sub l).
Check C13_evaluation_label_independent : forall labels menv f vs e,
  eval labels menv f vs e = eval no_labels menv f vs e \/
  exists l, eval no_labels menv f vs e = err1 "UnknownLabel" l.
Check C13_ingest_iff : forall ops,
  (exists bytes, ingest_ast ops = Ok bytes) <-> (parse_check ops = Ok tt /\ wf_program ops).
Check C13_expansion_exists_iff : forall macros sub l c,
  (exists r, expand_raws macros sub c l = Ok r) <->
  (forall a, In (ROp a) l -> expandable macros EXPANSION_FUEL a).
Check C13_expandable_invocation : forall macros fuel n args,
  expandable macros fuel (AMacro n args) <->
  exists f ps body, fuel = S f /\ mlookup macros n = Some (MI ps body) /\
    length ps = length args /\ NoDup (body_labels body) /\ Forall (expandable macros f) body.
