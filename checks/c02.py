"""C02 -- output is exactly the encoded instruction stream of the source."""
from lib import asmgen as G, common, e2e
from checks import asmfam
from checks.asmfam import mk_case, answer_bytes, answer_kind, replay  # noqa: F401


def layout_src(rng, prog):
    """print the program with random legal layout: indentation, blank lines, comments, `;` separators"""
    lines = []
    cur = ""
    for o in prog:
        txt = G.op_src(o)
        if o[0] == "op" and o[2] is not None and txt.startswith(o[1] + " ") and rng.random() < 0.3:
            txt = o[1] + "\t" + txt[len(o[1]) + 1:]          # the separator after pushN is one space OR one tab
        if "\n" in txt:          # macro definitions keep their own lines
            if cur:
                lines.append(cur)
                cur = ""
            lines.append(txt)
            continue
        if cur and rng.random() < 0.25 and o[0] in ("op", "push") :
            cur += rng.choice(["; ", ";", " ;  "]) + txt
        else:
            if cur:
                lines.append(cur)
            cur = rng.choice(["", "  ", "\t", "        "]) + txt
        if rng.random() < 0.15:
            cur += rng.choice(["  # comment", " #", "\t# push1 0xff ; stop"])
            lines.append(cur)
            cur = ""
        if rng.random() < 0.1:
            if cur:
                lines.append(cur)
                cur = ""
            lines.append(rng.choice(["", "   ", "# a comment line", "\t"]))
    if cur:
        lines.append(cur)
    head = rng.choice(["", "\n", "\n\n  \n"])
    tail = rng.choice(["", "\n", "\n\n"])
    text = head + "\n".join(lines) + tail
    # pest's NEWLINE is \n, \r\n or a bare \r: all three end a line (and a comment)
    nl = rng.choice(["\n", "\n", "\r\n", "\r"])
    if nl != "\n" and "%" not in text:          # macro definitions are printed with \n inside; keep those as they are
        text = text.replace("\n", nl)
    return text


def gen_prog(rng, table):
    plain = [m for m, (c, x) in table.items() if x == 0]
    prog = []
    labels = []
    for _ in range(rng.randrange(1, 40)):
        r = rng.random()
        if r < 0.5:
            prog.append(("op", rng.choice(plain), None))
        elif r < 0.85:
            N = rng.randrange(1, 33)
            v = rng.choice([0, 1, 256 ** N - 1, 256 ** (N - 1), rng.getrandbits(8 * N), rng.getrandbits(rng.randrange(1, 8 * N + 1))])
            prog.append(("op", f"push{N}", ("num", v, rng.choice([10, 16, 16, 2, 8]), rng.choice([0, 0, 0, 1, 2]))))      # leading zeros never change a value
        elif r < 0.93:
            l = f"lb{len(labels)}"
            labels.append(l)
            prog.append(("label", l))
        else:
            prog.append(("defe", f"k{len(prog)}", [], ("num", rng.randrange(1000))))
    return prog


def ref_encode(prog, table):
    out = bytearray()
    for o in prog:
        if o[0] == "op":
            code, extra = table[o[1]]
            out.append(code)
            if o[2] is not None:
                out += o[2][1].to_bytes(extra, "big")
    return bytes(out)


def check(run):
    rng = run.rng
    table = G.table()
    cases = []
    # every zero-operand opcode, push0..push32, dup/swap/log families: each mnemonic once
    every = [("op", m, None) for m, (c, x) in sorted(table.items(), key=lambda kv: kv[1][0]) if x == 0]
    every += [("op", f"push{N}", ("num", (0xA5 << (8 * (N - 1))) | N, 16)) for N in range(1, 33)]
    c = mk_case(every, "every-op", ref=ref_encode(every, table))
    cases.append(c)
    for _ in range(1200 if run.tier == "thorough" else 200):
        prog = gen_prog(rng, table)
        c = mk_case(prog, "random", ref=ref_encode(prog, table))
        src = layout_src(rng, prog)
        c["src"] = src
        c["req"] = "asm " + src.encode().hex()
        cases.append(c)
    # determinism: the same sources again (incl. macro programs, whose label suffixes are random)
    common.build_harness(False)
    again, rc, raw = common.run_harness([c["req"] for c in cases])
    for c, a in zip(cases, again):
        c["again"] = a
    m = [("defi", "m", ["a", "b"], [("label", "x"), ("op", "jumpdest", None), ("op", "push2", ("var", "a")), ("push", ("lbl", "x"))]),
         ("macro", "m", [("num", 1), ("num", 2)]), ("macro", "m", [("var", "b"), ("num", 5)])]
    for i in range(8):
        c = mk_case(m, "determinism-macro", ref=None)
        c["again"] = None
        cases.append(c)

    # the text -> syntax tree step (pest + parse/mod.rs): the parser's tree must be the generator's tree,
    # which is what the model consumes (hook etk_asm::verif_parse_debug)
    from checks import c10, c13
    tree_cases = [c for c in cases if c.get("ref") is not None][:120]
    extra = [c10.gen_case(rng) for _ in range(25)] + [c13.base_program(rng) for _ in range(5)]
    treq = [("parse_debug " + c["src"].encode().hex(), c["prog"], c["src"]) for c in tree_cases]
    treq += [("parse_debug " + layout_src(rng, p).encode().hex(), p, None) for p in extra]
    tans, rc2, raw2 = common.run_harness([t[0] for t in treq])
    tree_bad = []
    for (req, prog, src), a in zip(treq, tans):
        want = G.prog_debug(prog)
        got = bytes.fromhex(a[3:]).decode() if a.startswith("ok:") and len(a) > 3 else a
        if got != want:
            tree_bad.append(dict(request=req[:2000], parsed=got[:1500], expected=want[:1500]))
    run.corr["cases"] += len(treq)
    run.corr["distribution"]["parsed-tree"] = len(treq)

    # the model from SOURCE TEXT, in three layers on the same well-formed and malformed texts: the PEG model of
    # asm.pest (Model/Peg.v on Gen/AsmGrammar.v) against pest's pairs (hook etk_asm::verif_parse_pairs), the
    # conversion of pairs to the tree (Model/ParseTree.v) against parse_asm (hook etk_asm::verif_parse_debug),
    # and text -> bytes (ParseTree + Model/Asm.v) against Ingest::ingest for texts without file directives
    from checks import pegcorr
    peg_dis = pegcorr.report(run)

    def oracle(c, ans):
        k = answer_kind(ans)
        if k in ("panic", "crash"):
            return []
        problems = []
        if c.get("ref") is not None:
            if k != "ok":
                problems.append(f"a program of in-range instructions failed to assemble: {k}")
            elif answer_bytes(ans) != c["ref"]:
                problems.append(f"bytes differ from the reference encoding: got {answer_bytes(ans).hex()[:80]} expected {c['ref'].hex()[:80]}")
        if c.get("again") is not None and c["again"] != ans:
            problems.append(f"assembling the same source again gave a different result: {c['again'][:80]} vs {ans[:80]}")
        return problems

    # the same through the user-facing binary: `eas <file> [out]` (clap, Ingest::ingest_file, HexWrite)
    okb, outb = e2e.build_bins(["eas"])
    if not okb:
        run.violation_unproved("build of the eas binary", outb[-2000:])
    else:
        sc = e2e.Scratch()
        try:
            sub = [c for c in cases if c.get("ref") is not None]
            sub = sub[:1] + sub[1:(120 if run.tier == "thorough" else 30)]
            nbad = 0
            for i, c in enumerate(sub):
                rc_e, out_e = e2e.eas(sc, c["src"], to_file=(i % 3 == 0))
                if rc_e != 0 or out_e.strip() != c["ref"].hex():
                    nbad += 1
                    if nbad <= 2:
                        run.violation(dict(property="C02", source=c["src"][:3000], via="eas binary", rc=rc_e, got=out_e.strip()[:400], expected=c["ref"].hex()[:400],
                                           problems=["the eas binary does not print the reference encoding of the source"]))
            run.corr["cases"] += len(sub)
            run.corr["distribution"]["eas-binary"] = len(sub)
        finally:
            sc.cleanup()
    # the 8 identical macro programs must all give the same answer
    if tree_bad:
        run.log(f"PARSED TREE DIFFERS ({len(tree_bad)}): {tree_bad[0]['parsed'][:300]!r} vs {tree_bad[0]['expected'][:300]!r}")
        run.violation_unproved("correspondence: parser's syntax tree vs the generator's tree (text -> AST step)", tree_bad[0])
    if peg_dis:
        d = peg_dis[0]
        run.violation_unproved(pegcorr.describe(d),
                               dict(text=d["text"][:2000], hex=d["hex"][:4000], impl=str(d["impl"])[:1500], model=str(d["model"])[:1500], n=len(peg_dis)))
    rc = asmfam.run_family(run, "C02", cases, oracle,
                           "every mnemonic once; random programs over all zero-operand opcodes and push1..32 with boundary/random values in all radices, labels and definitions interleaved, printed with random indentation, blank lines, comments and `;` separators; each source assembled twice; a macro program with random label suffixes assembled 8 times; distinct = distinct sources; peg:* / text:*: the model from source text (PEG model of asm.pest vs pest's pairs; Model/ParseTree.v vs parse_asm's nodes or ParseError; text -> bytes vs Ingest::ingest) on generated programs in random layouts, programs over every statement kind of the grammar, and a malformed stream (hand-written odd texts, mutations, truncations, splices)",
                           "statement encoding")
    return rc
