"""C11 -- expression macros denote their body with arguments substituted."""
from lib import asmgen as G
from checks import asmfam
from checks.asmfam import mk_case, answer_bytes, answer_kind, replay  # noqa: F401

NAMES = ["x", "y", "a", "n"]


def rand_expr(rng, depth, params, macros, labels):
    """random operand over parameters, literals, labels and invocations of earlier macros"""
    r = rng.random()
    if depth <= 0 or r < 0.3:
        c = rng.random()
        if params and c < 0.45:
            return ("var", rng.choice(params))
        if labels and c < 0.6:
            return ("lbl", rng.choice(labels))
        return ("num", rng.choice([0, 1, 2, 3, 7, 10, 255, 256]))
    if macros and r < 0.6:
        name, nparams = rng.choice(macros)
        nargs = nparams + rng.choice([0, 0, 0, 1])        # extra arguments are ignored
        if rng.random() < 0.12 and nparams > 0:
            nargs = rng.choice([nparams - 1, 0])           # missing argument(s): UndefinedVariable
        return ("macro", name, [rand_expr(rng, depth - 1, params, macros, labels) for _ in range(nargs)])
    if r < 0.7:
        return ("paren", rand_expr(rng, depth - 1, params, macros, labels))
    toks = [rand_expr(rng, depth - 1, params, macros, labels)]
    for _ in range(rng.randrange(1, 3)):
        toks += [rng.choice(["+", "+", "-", "*"]), rand_expr(rng, depth - 1, params, macros, labels)]
    # operands of a binary operator that are themselves binary must be parenthesised to print back
    toks = [t if not (isinstance(t, tuple) and t[0] in "+-*/") else ("paren", t) for t in toks]
    return G.climb(toks)


def gen_case(rng, inside_imacro=False):
    vals = None
    k = rng.randrange(1, 5)
    defs, macros = [], []
    labels = ["la", "lb"]
    for i in range(k):
        # different macros deliberately reuse the same parameter names
        params = rng.sample(NAMES, rng.randrange(0, 3))
        # a body may also mention a variable that is NOT one of its parameters (an unbound variable,
        # whatever an enclosing macro binds under that name): it must be reported, never captured
        pool = params if rng.random() < 0.75 else NAMES
        body = rand_expr(rng, 2, pool, macros, labels)
        defs.append(("defe", f"f{i}", params, body))
        macros.append((f"f{i}", len(params)))
    use = rand_expr(rng, 2, [], macros, labels)
    if use[0] != "macro":
        name, nparams = macros[-1]
        use = ("macro", name, [rand_expr(rng, 1, [], macros, labels) for _ in range(nparams)])
    prog = [("label", "la"), ("op", "pc", None), ("op", "pc", None), ("label", "lb"), ("op", "jumpdest", None)]
    push = [("op", "push32", use)]
    if inside_imacro:
        # the invocation sits in an instruction macro body and its arguments mention the parameters of that
        # enclosing macro (several arguments, several parameters, the same parameter twice)
        ips = rng.sample(NAMES + ["p", "q"], rng.randrange(1, 4))
        name, nparams = rng.choice(macros)
        use = ("macro", name, [rand_expr(rng, 1, ips, macros, labels) if rng.random() < 0.3 else ("var", rng.choice(ips)) for _ in range(max(nparams, 2))])
        if rng.random() < 0.3:
            use = G.climb([("var", rng.choice(ips)), "+", use])
        args = [rng.choice([("num", rng.choice([0, 1, 5, 300])), ("lbl", rng.choice(labels))]) for _ in ips]
        body = [("op", "push32", use)]
        vals = {p_: ({"la": 0, "lb": 2}[a[1]] if a[0] == "lbl" else a[1]) for p_, a in zip(ips, args)}
        if rng.random() < 0.5:
            # a label local to the instruction macro, named like an outer label: inside the body (also inside the
            # arguments of the invocation) the name means the local label; in expression-macro bodies and in the
            # arguments of %im it still means the outer one
            body = [("label", "la"), ("op", "jumpdest", None)] + body

            def local(e):
                if e[0] == "lbl":
                    return ("lbl", "la#local") if e[1] == "la" else e
                if e[0] == "macro":
                    return ("macro", e[1], [local(a) for a in e[2]])
                if e[0] == "paren":
                    return ("paren", local(e[1]))
                if e[0] in ("num", "var"):
                    return e
                return (e[0], local(e[1]), local(e[2]))
            vals["#labels"] = {"la": 0, "lb": 2, "la#local": 3}
            vals["#use"] = local(use)
        defs = defs + [("defi", "im", ips, body)]
        push = [("macro", "im", args)]
    where = rng.random()
    if where < 0.4:
        prog = defs + prog + push
    elif where < 0.8:
        prog = prog + push + defs            # definitions after the use
    else:
        rng.shuffle(defs)
        prog = defs[:1] + prog + push + defs[1:]
    return prog, use, {d[1]: (d[2], d[3]) for d in defs if d[0] == "defe"}, vals


def oracle(c, ans):
    k = answer_kind(ans)
    if k in ("panic", "crash"):
        return []
    try:
        vars_ = dict(c["vars"]) if c.get("vars") else None
        labels = (vars_.pop("#labels", None) if vars_ else None) or c.get("labels", {"la": 0, "lb": 2})
        use = (vars_.pop("#use", None) if vars_ else None) or c["use"]
        v = G.ref_eval(use, labels, c["emacros"], vars_)
        want = "ok" if 0 <= v < 2 ** 256 else ("ExpressionNegative" if v < 0 else "ExpressionTooLarge")
    except G.EvalError as e:
        v = None
        want = {"UndefinedVariable": "UndeclaredVariableMacro", "UnknownMacro": "UndeclaredExpressionMacro",
                "DivisionByZero": "DivisionByZero", "RecursionLimit": "RecursionLimit", "UnknownLabel": "UndeclaredLabels"}[e.kind]
    problems = []
    if want == "ok":
        if k != "ok":
            problems.append(f"substitution semantics gives {v} but assembly failed with {k}")
        else:
            bs = answer_bytes(ans)
            got = int.from_bytes(bs[-32:], "big")
            if got != v:
                problems.append(f"substitution semantics gives {v} but the immediate is {got}")
    else:
        if k == "ok":
            problems.append(f"substitution semantics gives error {want} but assembly succeeded")
        elif k != want and not (want == "ExpressionTooLarge" and k == "Parse.ImmediateTooLarge"):
            problems.append(f"expected error {want}, got {k}")
    return problems


def check(run):
    rng = run.rng
    cases = []
    for _ in range(3000 if run.tier == "thorough" else 800):
        inside = rng.random() < 0.25
        prog, use, emacros, vals = gen_case(rng, inside)
        cases.append(mk_case(prog, "emacros-in-imacro" if inside else "emacros", use=use, emacros=emacros, vars=vals))
    # fixed corner cases: same-name forwarding, different-name forwarding, recursion
    f = ("defe", "f", ["x"], G.climb([("var", "x"), "+", ("num", 1)]))
    for g in (("defe", "g", ["x"], ("macro", "f", [("var", "x")])), ("defe", "g", ["y"], ("macro", "f", [("var", "y")]))):
        use = ("macro", "g", [("num", 1)])
        cases.append(mk_case([f, g, ("op", "push32", use)], "forward", use=use, emacros={"f": (f[2], f[3]), "g": (g[2], g[3])}))
    # no capture: a callee that binds nothing must not see the caller's bindings
    inner = ("defe", "inner", [], G.climb([("var", "x"), "+", ("num", 1)]))
    outer = ("defe", "outer", ["x"], G.climb([("macro", "inner", []), "*", ("num", 2)]))
    use = ("macro", "outer", [("num", 5)])
    cases.append(mk_case([inner, outer, ("op", "push32", use)], "no-capture", use=use, emacros={"inner": ([], inner[3]), "outer": (["x"], outer[3])}))
    inner1 = ("defe", "inner", ["x"], G.climb([("var", "x"), "+", ("lbl", "lb")]))
    outer1 = ("defe", "outer", ["x"], ("macro", "inner", []))
    use = ("macro", "outer", [("lbl", "la")])
    cases.append(mk_case([("label", "la"), ("op", "jumpdest", None), inner1, outer1, ("op", "push32", use), ("label", "lb")], "no-capture",
                         use=use, emacros={"inner": (["x"], inner1[3]), "outer": (["x"], outer1[3])}))
    r = ("defe", "r", [], ("macro", "r", []))
    use = ("macro", "r", [])
    cases.append(mk_case([r, ("op", "push32", use)], "recursive", use=use, emacros={"r": ([], r[3])}))
    return asmfam.run_family(run, "C11", cases, oracle,
                             "random acyclic sets of 1-4 expression macros reusing the parameter names x,y,a,n; bodies and arguments over parameters, literals, labels, nested invocations (extra/missing arguments); definitions before/after/around the use; a quarter of the uses sit in an instruction macro body with arguments over the parameters of that macro; distinct = distinct sources",
                             "expression macro evaluation")
