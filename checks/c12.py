"""C12 -- included files are isolated and spliced verbatim; imports are textual."""
import os

from lib import common, asmgen as G, fstree
from lib.fstree import Tree

IMPORTS = fstree.PREAMBLE

TRUSTED = [
    "Coq 8.16.1 kernel incl. vm_compute; axioms: none",
    "tools/gen_tables.py (opcode sizes regenerated from the TOML)",
    "Model/Asm.v + Model/Expr.v (assembler) and Model/Ingest.v (Program / Ingest::preprocess / resolve_and_ingest): hand-written models, "
    "tied to the code by differential runs of `asm_file` on directory trees generated on disk",
    "Model/Path.v: THE OPERATING SYSTEM IS MODELLED (tree of Dir/File/Link, realpath-style walk, 40-link ELOOP limit). Assumed, not proved: "
    "canonicalize / File::open / read_to_string / metadata resolve a path the same way; the tree and the cwd do not change during a run; "
    "no permission or encoding errors (contents are ASCII)",
    "parsing (pest) is not modelled: a file's content in the model is the python AST it was printed from (the real parser reads the printed text)",
    "harness crate etk-vh (asm, asm_file, asm_file_cwd) and python driver; the python flattening oracle uses only single-file assembly of the implementation",
]

P32 = 0x1122334455667788990011223344556677889900112233445566778899001122


def filler(n):
    ops = []
    while n >= 33 and n > 400:
        ops.append(("op", "push32", ("num", P32, 16)))
        n -= 33
    ops += [("op", "pc", None)] * n
    return ops


def filler_bytes(n):
    out = b""
    while n >= 33 and n > 400:
        out += b"\x7f" + P32.to_bytes(32, "big")
        n -= 33
    return out + b"\x58" * n


def hex_text(rng, bs, style=None):
    h = bytes(bs).hex()
    style = style if style is not None else rng.randrange(6)
    if style == 1:
        h = h.upper()
    elif style == 2:
        h = "".join(c.upper() if rng.random() < 0.5 else c for c in h)
    pre = rng.choice(["", "", " ", "\n", " \t"]) if style >= 3 else ""
    post = rng.choice(["\n", "", "\r\n", " \n\n", "\t"]) if style != 0 else ""
    return pre + h + post


def rand_blob(rng, n):
    return bytes(rng.randrange(256) for _ in range(n))


# ---------------------------------------------------------------- random trees
class Gen:
    """One case: files under <top>/root, main = root/main.etk."""

    def __init__(self, rng, tree, top, big=False):
        self.rng, self.t, self.top = rng, tree, top
        self.root = os.path.join(top, "root")
        self.fid = 0
        self.lbl = 0
        self.big = big
        self.progs = {}      # absolute path (as written) -> prog
        self.dirs = ["", "a", "a/b", "c", "a/b/d", "my dir"]

    def new_id(self):
        self.fid += 1
        return self.fid

    def rel_arg(self, from_dir, to_path):
        """A directive argument naming to_path from a file in from_dir: several spellings."""
        rng = self.rng
        rel = os.path.relpath(to_path, from_dir)
        r = rng.random()
        if r < 0.55:
            return rel
        if r < 0.7:
            return "./" + rel
        if r < 0.8:
            return to_path                       # absolute
        if r < 0.9 and os.path.dirname(rel) not in ("", ".."):
            d = rel.split("/")[0]
            if d != "..":
                return d + "/../" + rel
        return rel.replace("/", "//", 1)

    def body_ops(self, fid, scope_labels, scope_macros, outer_refs):
        """plain ops of one file: labels with sentinels, pushes of labels visible in this scope."""
        rng = self.rng
        ops = []
        own = []
        for k in range(rng.randrange(0, 3)):
            self.lbl += 1
            own.append(f"l{fid}_{self.lbl}")
        refs = own + scope_labels + outer_refs
        n = rng.randrange(1, 6)
        pending = list(own)
        for _ in range(n):
            r = rng.random()
            if pending and r < 0.3:
                L = pending.pop(0)
                ops += [("label", L), ("op", "jumpdest", None)]
            elif refs and r < 0.5:
                ops.append(("push", ("lbl", rng.choice(refs))))
            elif refs and r < 0.62:
                ops.append(("op", rng.choice(["push2", "push3"]), ("lbl", rng.choice(refs))))
            elif refs and r < 0.7:
                ops.append(("push", ("+", ("lbl", rng.choice(refs)), ("num", rng.choice([0, 1, 250, 255, 256])))))
            elif scope_macros and r < 0.82:
                ops.append(("macro", rng.choice(scope_macros), [("num", rng.randrange(0, 256))]))
            elif r < 0.9:
                ops.append(("op", rng.choice(["gas", "caller", "origin", "address"]), None))
            else:
                ops.append(("op", "push1", ("num", rng.randrange(0, 256))))
        for L in pending:
            ops += [("label", L), ("op", "jumpdest", None)]
        return ops, own

    def gen_scope(self, path, depth, is_root_of_scope, scope_labels, scope_macros):
        """Write the file `path`; returns the labels it adds to its scope (for importers)."""
        rng = self.rng
        fid = self.new_id()
        d = os.path.dirname(path)
        prog = []
        if is_root_of_scope:
            scope_labels = ["common"]
            mname = f"m{fid}"
            scope_macros = [mname, "mc"]
            prog.append(("defi", mname, ["a"], [("op", "push1", ("var", "a")), ("op", "pop", None)]))
            prog.append(("defi", "mc", ["a"], [("label", "loc"), ("op", "jumpdest", None), ("op", "push2", ("lbl", "loc")), ("op", "push1", ("var", "a"))]))
            prog += [("label", "common"), ("op", "jumpdest", None)]
        added = []
        nseg = rng.randrange(1, 4) if depth < 3 else 1
        for s in range(nseg):
            ops, own = self.body_ops(fid, scope_labels + added, scope_macros, [])
            prog += ops
            added += own
            if s == nseg - 1:
                break
            if depth >= 3:
                continue
            kind = rng.choice(["import", "include", "include_hex", "include_hex", "import", "include"])
            sub = rng.choice(self.dirs)
            cid = self.fid + 1
            if kind == "include_hex":
                child = os.path.join(self.root, sub, f"blob{cid}.hex")
                self.new_id()
                if self.big and rng.random() < 0.5:
                    n = rng.choice([65535, 65536, 70000, 65530])
                    self.big = False
                else:
                    n = rng.choice([0, 1, 2, 31, 32, 33, 200, 254, 255, 256, 257, rng.randrange(0, 600)])
                bs = rand_blob(rng, n)
                self.t.write_text(child, hex_text(rng, bs), parses_as=[] if n == 0 else None)
                prog.append((kind, self.rel_arg(d, child)))
            elif kind == "import":
                child = os.path.join(self.root, sub, f"f{cid}.etk")
                got = self.gen_scope(child, depth + 1, False, scope_labels + added, scope_macros)
                added += got
                prog.append((kind, self.rel_arg(d, child)))
            else:
                child = os.path.join(self.root, sub, f"f{cid}.etk")
                self.gen_scope(child, depth + 1, True, [], [])
                prog.append((kind, self.rel_arg(d, child)))
        if rng.random() < 0.25:
            prog += filler(rng.choice([200, 240, 250, 253, 256]))
            if added:
                prog.append(("op", "push4", ("lbl", added[-1])))
        # forward references from the top of the file to labels of this scope defined later / in imports
        if added and rng.random() < 0.7:
            at = 0
            while at < len(prog) and prog[at][0] in ("defi", "defe"):
                at += 1
            prog[at:at] = [("push", ("lbl", rng.choice(added)))]
        self.t.write_src(path, prog)
        self.progs[path] = prog
        return added


# ---------------------------------------------------------------- reference by flattening
class Flat:
    """Independent reference for a tree: the output of a file is computed from SINGLE-FILE assemblies
    only.  %import = paste (recursively), %include = the bytes of the separately computed included
    file, %include_hex = the bytes in the file; every blob is replaced by filler instructions of
    the same length behind a fresh label, located through probes appended at the end."""

    def __init__(self, tree):
        self.t = tree
        self.memo = {}       # realpath -> bytes | ("err", kind)
        self.index = {}

    def prog_of(self, path):
        if len(self.index) != len(self.t.files):
            self.index = {os.path.realpath(k): v for k, v in self.t.files.items()}
        return self.index[os.path.realpath(path)]

    def items(self, path, stack=()):
        """-> list of ('op', op) / ('blob', bytes) / ('need', path) ; 'need' = include not yet known"""
        prog, text = self.prog_of(path)
        if prog is None:
            return [("bad", "Parse.Lexer()")]
        if len(stack) > 40:
            return [("bad", "RecursionLimit()")]
        out = []
        for o in prog:
            if o[0] == "import":
                out += self.items(os.path.join(os.path.dirname(path), o[1]), stack + (path,))
            elif o[0] == "include":
                child = os.path.realpath(os.path.join(os.path.dirname(path), o[1]))
                if child in self.memo:
                    v = self.memo[child]
                    out.append(("blob", v) if isinstance(v, bytes) else ("bad", v[1]))
                else:
                    out.append(("need", child))
            elif o[0] == "include_hex":
                _, txt = self.prog_of(os.path.join(os.path.dirname(path), o[1]))
                try:
                    out.append(("blob", strict_unhex(txt.strip(" \t\n\r\x0b\x0c"))))
                except ValueError:
                    out.append(("bad", "InvalidHex()"))
            else:
                out.append(("op", o))
        return out

    def flat_source(self, items):
        ops, blobs = [], []
        for it in items:
            if it[0] == "op":
                ops.append(it[1])
            else:
                k = len(blobs)
                blobs.append(it[1])
                ops.append(("label", f"zz_blob_{k}"))
                ops += filler(len(it[1]))
        for k in range(len(blobs)):
            ops.append(("op", "push4", ("lbl", f"zz_blob_{k}")))
        return G.prog_src(ops), blobs

    @staticmethod
    def patch(answer, blobs):
        if not answer.startswith("ok:"):
            return ("err", answer.split(" out=")[0][4:])
        out = bytes.fromhex(answer[3:]) if answer[3:] != "-" else b""
        k = len(blobs)
        body, probes = out[:len(out) - 5 * k], out[len(out) - 5 * k:]
        body = bytearray(body)
        for i, b in enumerate(blobs):
            pr = probes[5 * i:5 * i + 5]
            if pr[0] != 0x63:
                return ("err", "oracle: probe missing")
            pos = int.from_bytes(pr[1:], "big")
            if bytes(body[pos:pos + len(b)]) != filler_bytes(len(b)):
                return ("err", "oracle: filler not found at the probed offset")
            body[pos:pos + len(b)] = b
        return bytes(body)

    def solve(self, mains):
        """Compute the reference output of every path in `mains` (rounds of single-file assemblies)."""
        want = [os.path.realpath(m) for m in mains]
        for _ in range(12):
            todo = []
            frontier = list(want)
            seen = set()
            while frontier:
                p = frontier.pop()
                if p in seen or p in self.memo:
                    continue
                seen.add(p)
                its = self.items(p)
                needs = [x[1] for x in its if x[0] == "need"]
                if needs:
                    frontier += needs
                    continue
                bad = [x[1] for x in its if x[0] == "bad"]
                if bad:
                    self.memo[p] = ("err", bad[0])
                    continue
                src, blobs = self.flat_source(its)
                todo.append((p, src, blobs))
            if not todo:
                if all(w in self.memo for w in want):
                    break
                continue
            answers, rc, raw = common.run_harness(["asm " + s.encode().hex() for _, s, _ in todo], timeout=600)
            if len(answers) != len(todo):
                raise RuntimeError("harness died in the flattening oracle: " + raw[-500:])
            for (p, src, blobs), a in zip(todo, answers):
                self.memo[p] = self.patch(a, blobs)
        return [self.memo.get(w, ("err", "oracle: unresolved")) for w in want]


def strict_unhex(s):
    if len(s) % 2 or any(c not in "0123456789abcdefABCDEF" for c in s):
        raise ValueError("bad hex")
    return bytes.fromhex(s)


# ---------------------------------------------------------------- designed cases
def designed(rng, t, base, tier):
    """-> list of (top, main path, category, expected) ; expected: None (use the flattening oracle),
    or an exact harness answer prefix."""
    out = []
    n = [0]

    def case(cat):
        n[0] += 1
        top = os.path.join(base, f"d{n[0]}")
        return top, os.path.join(top, "root")

    jd = ("op", "jumpdest", None)
    # isolation, four directions
    top, r = case("iso")
    t.write_src(r + "/main.etk", [("label", "outer"), jd, ("include", "inc/f.etk"), ("op", "push1", ("lbl", "outer"))])
    t.write_src(r + "/inc/f.etk", [("op", "push1", ("lbl", "outer"))])
    out.append((top, r + "/main.etk", "isolation", "err:UndeclaredLabels(outer)"))
    # ... also when the including file defines the label only AFTER the directive, at any depth, and when the
    # included file is otherwise fine
    top, r = case("iso")
    t.write_src(r + "/main.etk", [("op", "push1", ("num", 1)), ("include", "inc/f.etk"), ("label", "after"), jd, ("op", "push1", ("lbl", "after"))])
    t.write_src(r + "/inc/f.etk", [("op", "push1", ("lbl", "after")), ("op", "jump", None)])
    out.append((top, r + "/main.etk", "isolation", "err:UndeclaredLabels(after)"))
    top, r = case("iso")
    t.write_src(r + "/main.etk", [("include", "mid.etk"), ("label", "after"), jd])
    t.write_src(r + "/mid.etk", [("op", "pc", None), ("include", "inc/f.etk"), ("label", "after"), jd])
    t.write_src(r + "/inc/f.etk", [("label", "own"), jd, ("push", G.climb([("lbl", "after"), "+", ("lbl", "own")]))])
    out.append((top, r + "/main.etk", "isolation", "err:UndeclaredLabels(after)"))
    top, r = case("iso")
    t.write_src(r + "/main.etk", [("include", "f.etk"), ("include", "g.etk"), ("label", "l2"), jd])
    t.write_src(r + "/f.etk", [("op", "pc", None)])
    t.write_src(r + "/g.etk", [("op", "push1", ("lbl", "l2"))])
    out.append((top, r + "/main.etk", "isolation", "err:UndeclaredLabels(l2)"))
    top, r = case("iso")
    t.write_src(r + "/main.etk", [("include", "inc/f.etk"), ("op", "push1", ("lbl", "inner"))])
    t.write_src(r + "/inc/f.etk", [("label", "inner"), jd])
    out.append((top, r + "/main.etk", "isolation", "err:UndeclaredLabels(inner)"))
    top, r = case("iso")
    t.write_src(r + "/main.etk", [("defi", "m", [], [("op", "pc", None)]), ("macro", "m", []), ("include", "f.etk")])
    t.write_src(r + "/f.etk", [("macro", "m", [])])
    out.append((top, r + "/main.etk", "isolation", "err:UndeclaredInstructionMacro(m)"))
    top, r = case("iso")
    t.write_src(r + "/main.etk", [("include", "f.etk"), ("macro", "m", [])])
    t.write_src(r + "/f.etk", [("defi", "m", [], [("op", "pc", None)]), ("macro", "m", [])])
    out.append((top, r + "/main.etk", "isolation", "err:UndeclaredInstructionMacro(m)"))
    top, r = case("iso")
    t.write_src(r + "/main.etk", [("include", "f.etk"), ("op", "push1", ("macro", "e", []))])
    t.write_src(r + "/f.etk", [("defe", "e", [], ("num", 7)), ("op", "push1", ("macro", "e", []))])
    out.append((top, r + "/main.etk", "isolation", "err:UndeclaredExpressionMacro(e)"))
    # same names on both sides: fine, each side sees its own
    top, r = case("iso")
    same = [("defi", "m", [], [("op", "gas", None)]), ("defe", "e", [], ("num", 9)), ("label", "x"), jd, ("op", "push2", ("lbl", "x")),
            ("macro", "m", []), ("op", "push1", ("macro", "e", []))]
    t.write_src(r + "/main.etk", [("op", "pc", None)] + same + [("include", "f.etk"), ("include", "f.etk"), ("op", "push2", ("lbl", "x"))])
    t.write_src(r + "/f.etk", same)
    out.append((top, r + "/main.etk", "isolation", None))
    # imports are textual: twice = duplicate label; macro defined in the imported file usable before the directive
    top, r = case("txt")
    t.write_src(r + "/main.etk", [("import", "f.etk"), ("import", "f.etk")])
    t.write_src(r + "/f.etk", [("label", "a"), jd])
    out.append((top, r + "/main.etk", "textual", "err:DuplicateLabel(a)"))
    top, r = case("txt")
    t.write_src(r + "/main.etk", [("import", "f.etk"), ("op", "pc", None), ("import", "f.etk")])
    t.write_src(r + "/f.etk", [("op", "gas", None), ("op", "push1", ("num", 7))])
    out.append((top, r + "/main.etk", "textual", None))
    top, r = case("txt")
    t.write_src(r + "/main.etk", [("macro", "late", [("num", 3)]), ("op", "push1", ("lbl", "far")), ("import", "lib/defs.etk"), ("op", "push1", ("macro", "two", []))])
    t.write_src(r + "/lib/defs.etk", [("defi", "late", ["v"], [("op", "push1", ("var", "v"))]), ("defe", "two", [], ("num", 2)), ("label", "far"), jd])
    out.append((top, r + "/main.etk", "textual", None))
    top, r = case("txt")
    t.write_src(r + "/main.etk", [("defi", "m", [], []), ("import", "f.etk")])
    t.write_src(r + "/f.etk", [("defi", "m", [], [])])
    out.append((top, r + "/main.etk", "textual", "err:DuplicateMacro(m)"))
    # relative to the file holding the directive: the same name in two directories
    top, r = case("rel")
    t.write_src(r + "/main.etk", [("import", "a/f.etk"), ("import", "x.etk"), ("include", "a/b/g.etk")])
    t.write_src(r + "/x.etk", [("op", "push1", ("num", 1))])
    t.write_src(r + "/a/x.etk", [("op", "push1", ("num", 2))])
    t.write_src(r + "/a/b/x.etk", [("op", "push1", ("num", 3))])
    t.write_src(r + "/a/f.etk", [("import", "x.etk"), ("import", "b/x.etk"), ("import", "../x.etk"), ("include_hex", "b/h.hex")])
    t.write_src(r + "/a/b/g.etk", [("import", "x.etk"), ("import", "../x.etk"), ("import", "../../x.etk"), ("include_hex", "h.hex")])
    t.write_text(r + "/a/b/h.hex", "c0ffee")
    t.write_text(r + "/h.hex", "00")
    out.append((top, r + "/main.etk", "relative", None))
    # blank and comment-only files (nothing to paste / an empty scope) followed by directives whose paths are
    # relative to the file that holds them, decoys of the same name next to the blank file
    for kind in ("import", "include"):
        for blank in ("", "\n", "   \n\t\n", "# nothing here\n"):
            top, r = case("blank")
            t.write_src(r + "/main.etk", [("op", "push1", ("num", 1)), ("include", "lib/a.etk"), ("label", "end"), jd, ("op", "push1", ("lbl", "end"))])
            t.write_src(r + "/lib/a.etk", [("op", "pc", None), (kind, "sub/blank.etk"), ("include_hex", "blob.hex"), ("import", "x.etk"), ("op", "pc", None)])
            t.write_text(r + "/lib/sub/blank.etk", blank, parses_as=[])
            t.write_text(r + "/lib/blob.hex", "aabb")
            t.write_text(r + "/lib/sub/blob.hex", "ccddeeff")
            t.write_src(r + "/lib/x.etk", [("op", "push1", ("num", 2))])
            t.write_src(r + "/lib/sub/x.etk", [("op", "push1", ("num", 3))])
            out.append((top, r + "/main.etk", "blank-file", None))
            top, r = case("blank")
            t.write_src(r + "/main.etk", [(kind, "sub/blank.etk"), ("include", "b.etk"), ("label", "end"), jd, ("op", "push1", ("lbl", "end"))])
            t.write_text(r + "/sub/blank.etk", blank, parses_as=[])
            t.write_src(r + "/b.etk", [("label", "a"), jd, ("op", "push1", ("lbl", "a"))])
            out.append((top, r + "/main.etk", "blank-file", None))
    # blob lengths on the width boundaries, a label behind and an auto-sized push in front
    sizes = [0, 1, 254, 255, 256, 65535] + ([65536, 70000] if tier == "thorough" else [70000])
    for L in sizes:
        top, r = case("blob")
        t.write_src(r + "/main.etk", [("push", ("lbl", "after")), ("op", "push3", ("lbl", "after")), ("include_hex", "b.hex"),
                                      ("label", "after"), jd, ("push", ("lbl", "after"))])
        t.write_text(r + "/b.hex", hex_text(rng, rand_blob(rng, L)), parses_as=[] if L == 0 else None)
        out.append((top, r + "/main.etk", "blob-boundary", None))
    for L in [250, 252, 65531]:
        top, r = case("incl")
        t.write_src(r + "/main.etk", [("push", ("lbl", "after")), ("include", "s/big.etk"), ("label", "after"), jd, ("op", "push4", ("lbl", "after"))])
        t.write_src(r + "/s/big.etk", [("label", "after"), jd] + filler(L) + [("push", ("lbl", "after")), ("label", "z"), jd, ("push", ("lbl", "z"))])
        out.append((top, r + "/main.etk", "include-boundary", None))
    # invalid hex, odd length, 0x prefix
    for txt in ["0x00", "abc", "zz", "12 34", "\n"]:
        top, r = case("hex")
        t.write_src(r + "/main.etk", [("op", "pc", None), ("include_hex", "b.hex")])
        t.write_text(r + "/b.hex", txt, parses_as=[] if not txt.strip() else None)
        out.append((top, r + "/main.etk", "hex-invalid", None if not txt.strip() else "err:InvalidHex()"))
    # the recursion limit: main + 255 nested imports is fine, one more is RecursionLimit
    for last in (255, 256):
        top, r = case("deep")
        for i in range(last + 1):
            t.write_src(r + f"/c{i}.etk", [("op", "pc", None)] + ([("import", f"c{i + 1}.etk")] if i < last else []))
        out.append((top, r + "/c0.etk", "depth-limit", "ok:" + "58" * 256 if last == 255 else "err:RecursionLimit()"))
    top, r = case("deep")
    t.write_src(r + "/main.etk", [("include", "main.etk")])
    out.append((top, r + "/main.etk", "depth-limit", "err:RecursionLimit()"))
    # importing something that is not a source; a directory; a missing file
    top, r = case("io")
    t.write_src(r + "/main.etk", [("import", "b.hex")])
    t.write_text(r + "/b.hex", "deadbeef")
    out.append((top, r + "/main.etk", "io", "err:Parse.Lexer()"))
    top, r = case("io")
    t.write_src(r + "/main.etk", [("include", "sub")])
    t.mkdir(r + "/sub")
    out.append((top, r + "/main.etk", "io", "err:Io(reading_file_before_parsing)"))
    top, r = case("io")
    t.write_src(r + "/main.etk", [("include_hex", "sub/")])
    t.mkdir(r + "/sub")
    out.append((top, r + "/main.etk", "io", "err:Io(reading_hex_include)"))
    top, r = case("io")
    t.write_src(r + "/main.etk", [("include_hex", "nothing.hex")])
    out.append((top, r + "/main.etk", "io", "err:Io(canonicalizing_include/import)"))
    top, r = case("io")
    t.write_src(r + "/main.etk", [("import", "f.etk/")])
    t.write_src(r + "/f.etk", [("op", "pc", None)])
    out.append((top, r + "/main.etk", "io", "err:Io(canonicalizing_include/import)"))
    top, r = case("io")
    t.write_src(r + "/main.etk", [("import", "")])
    out.append((top, r + "/main.etk", "io", "err:Io(reading_file_before_parsing)"))
    return out


def check(run):
    rng = run.rng
    proof_ok = run.prove()
    ok, out, dt = common.build_harness(False)
    if not ok:
        run.violation_unproved("harness-build", out)
        return run.finish(trusted=TRUSTED)
    t = Tree()
    try:
        return _check(run, rng, proof_ok, t)
    finally:
        t.cleanup()


def _check(run, rng, proof_ok, t):
    cases = []
    flat = Flat(t)
    n = 260 if run.tier == "thorough" else 70
    for i in range(n):
        top = t.p(f"g{i}")
        g = Gen(rng, t, top, big=(i % 25 == 3))
        main = os.path.join(g.root, "main.etk")
        g.gen_scope(main, 0, True, [], [])
        cases.append(dict(top=top, main=main, cat="generated", expect=None))
    for top, main, cat, expect in designed(rng, t, t.p("designed"), run.tier):
        cases.append(dict(top=top, main=main, cat=cat, expect=expect))
    for k, c in enumerate(cases):
        rootdir = os.path.dirname(c["main"])
        if k % 3 == 1:       # relative top-level path with the current directory inside the tree
            cwd = rng.choice([rootdir, c["top"]])
            rel = os.path.relpath(c["main"], cwd)
            if rng.random() < 0.3:
                rel = "./" + rel
            c["req"] = "asm_file_cwd " + cwd.encode().hex() + " " + rel.encode().hex()
            c["coq"] = f"run_ingest {t.fs_coq(c['top'], cwd=cwd)} {G.cs(rel)}"
        else:
            c["req"] = "asm_file " + c["main"].encode().hex()
            c["coq"] = f"run_ingest {t.fs_coq(c['top'], cwd=c['top'])} {G.cs(c['main'])}"
    dis = common.correspond(run, cases, IMPORTS, tag="c12", timeout=900)
    run.corr["rule"] = ("directory trees on disk: 1-3 directives per file (import / include / include_hex), nesting depth <= 3, files in 6 subdirectories, "
                        "arguments spelled relative / ./ / absolute / d/../ / doubled slash; labels with jumpdest sentinels, fixed and auto-sized pushes of labels "
                        "of the same scope incl. forward references across directives, instruction macros with local labels per scope, blobs of 0..70000 bytes "
                        "(lower/upper/mixed hex, white space around), filler across the 256 boundary; designed cases for isolation, textual import, same names "
                        "in several directories, width boundaries, invalid hex, the 255-deep limit, I/O errors; distinct = distinct trees")
    # ---- property oracle on the implementation: composition of separately assembled parts
    refs = flat.solve([c["main"] for c in cases if c["expect"] is None])
    it = iter(refs)
    found = 0
    for c in cases:
        impl = c["impl"] or ""
        problems = []
        if impl.startswith("panic") or impl.startswith("crash"):
            problems.append("implementation crashed: " + impl[:200])
        elif c["expect"] is not None:
            if not (impl.startswith(c["expect"]) and (impl.startswith("ok:") or impl.endswith(" out=-"))):
                problems.append(f"expected {c['expect'][:80]}..., got {impl[:120]}")
        else:
            ref = next(it)
            if isinstance(ref, bytes):
                want = "ok:" + (ref.hex() if ref else "-")
                if impl != want:
                    problems.append("output differs from the composition of separately assembled parts (import = pasted text, include = bytes of the "
                                    f"stand-alone file, include_hex = the bytes): got {impl[:160]}... want {want[:160]}...")
            elif ref[1].startswith("oracle:"):
                run.notes.append("flattening oracle gave up on a case: " + ref[1])
            else:
                if impl.startswith("ok:"):
                    problems.append(f"a part fails on its own ({ref[1]}) but the whole assembled: {impl[:120]}")
                elif not impl.endswith(" out=-"):
                    problems.append("output was written although assembly failed: " + impl[:200])
        if problems:
            found += 1
            if found <= 3:
                files = {os.path.relpath(p, c["top"]): txt[:3000] for p, (pr, txt) in t.files.items() if p.startswith(c["top"] + "/")}
                run.violation(dict(property="C12", main=os.path.relpath(c["main"], c["top"]), files=files, impl=impl[:600], problems=problems,
                                   replay="recreate `files` under a directory, then: echo asm_file $(printf %s <abs path of main> | xxd -p -c 100000) | .cache/target/debug/etk-vh"))
    oks = sum(1 for c in cases if c["cat"] == "generated" and (c["impl"] or "").startswith("ok:"))
    run.notes.append(f"generated trees assembling successfully: {oks} of {sum(1 for c in cases if c['cat'] == 'generated')}")
    if (not proof_ok or dis) and not found:
        if dis:
            d = dis[0]
            files = {os.path.relpath(p, d["top"]): txt[:1500] for p, (pr, txt) in t.files.items() if p.startswith(d["top"] + "/")}
            run.log(f"DISAGREE ({len(dis)}) cat={d['cat']} main={d['main']}: impl={str(d['impl'])[:200]!r} model={str(d['model'])[:200]!r}")
            run.violation_unproved("correspondence Model/Ingest.v + Model/Path.v vs etk-asm ingest.rs",
                                   dict(main=d["main"], files=files, impl=str(d["impl"])[:600], model=str(d["model"])[:600], n=len(dis)))
        else:
            run.violation_unproved("theorems of Props/C12.v", run.proof["log"])
    return run.finish(trusted=TRUSTED)


def replay(obj):
    """Recreate the recorded tree in a fresh temp directory and run the implementation on it."""
    print({k: v for k, v in obj.items() if k != "files"})
    if "files" not in obj:
        return 0
    with Tree() as t:
        for rel, txt in obj["files"].items():
            t.write_text(t.p(rel), txt)
        main = t.p(obj["main"])
        ans, rc, raw = common.run_harness(["asm_file " + main.encode().hex()])
        print(ans)
    return 0
