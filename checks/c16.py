"""C16 -- basic blocks partition the instruction stream at control-flow boundaries."""
import re
from lib import common
from lib.common import coq_bytes

IMPORTS = "From Verif Require Import Model.Base Model.Ops Model.Disasm Model.Blocks."

TRUSTED = [
    "Coq 8.16.1 kernel incl. vm_compute; axioms: none",
    "tools/gen_tables.py (jump/jumpdest/exits flags regenerated from the TOML)",
    "Model/Blocks.v is a hand-written model of Separator::{push,push_all,take,finish}; tied to the code by differential histories",
    "harness crate etk-vh and python driver; the python shape oracle is used only for the counter-example search",
]

JT = {0x5B}
JMP = {0x56, 0x57}
HALT = {0x00, 0xF3, 0xFD, 0xFE, 0xFF}


def is_halt(c):
    defined = (c <= 0x0B or 0x10 <= c <= 0x1D or c == 0x20 or 0x30 <= c <= 0x48 or 0x50 <= c <= 0x5B
               or 0x5E <= c <= 0xA4 or c in (0xF0, 0xF1, 0xF2, 0xF3, 0xF4, 0xF5, 0xFA, 0xFD, 0xFE, 0xFF))
    return c in HALT or not defined


def gen_instrs(rng, n, consecutive=True):
    its, off = [], rng.choice([0, 0, 7, 1000])
    for _ in range(n):
        r = rng.random()
        if r < 0.2:
            c = 0x5B
        elif r < 0.35:
            c = rng.choice([0x56, 0x57])
        elif r < 0.45:
            c = rng.choice([0x00, 0xF3, 0xFD, 0xFE, 0xFF, 0x0C, 0xEF])
        elif r < 0.7:
            c = rng.randrange(0x5F, 0x80)
        else:
            c = rng.choice([0x01, 0x50, 0x80, 0x90, 0x54, 0x5A, 0x35, 0xA0, 0x53])
        k = c - 0x5F if 0x60 <= c <= 0x7F else 0
        imm = [rng.randrange(256) for _ in range(k)]
        its.append((off, [c] + imm))
        off += 1 + k if consecutive else rng.randrange(1, 50)
    return its


def gen_schedule(rng, n):
    toks, left = [], n
    while left > 0:
        r = rng.random()
        if r < 0.45:
            toks.append("P")
            left -= 1
        elif r < 0.75:
            k = rng.randrange(0, min(left, 9) + 1)
            toks.append(f"A{k}")
            left -= k
        else:
            toks.append("T")
    if rng.random() < 0.08:
        toks.append("F")      # finish without taking first: must panic iff completed blocks remain
    else:
        toks += ["T", "F"]
    return toks


def to_req(its, toks):
    s = ",".join(f"{o}:{bytes(b).hex()}" for o, b in its) if its else "-"
    return f"sep_hist {s} " + " ".join(toks)


def to_coq(its, toks):
    li = "[" + "; ".join(f"mkitem {o} {b[0]} {coq_bytes(b[1:])}" for o, b in its) + "]"
    lt = "[" + "; ".join("TP" if t == "P" else "TT" if t == "T" else "TF" if t == "F" else f"TA {t[1:]}" for t in toks) + "]"
    return f"run_sep_hist {li} {lt}"


def canon(s):
    if s is None:
        return "<no-answer>"
    return re.sub(r"panic:.*$", "panic", s.strip())


def oracle(ans, its, toks):
    """The property itself, evaluated on the implementation's answer."""
    if "F" not in toks or toks[-2:] != ["T", "F"]:
        return []
    blocks = []
    for m in re.finditer(r"blk\((\d+),(\d+),\[([0-9a-f,]*)\]\)", ans):
        ops = [bytes.fromhex(x) for x in m.group(3).split(",")] if m.group(3) else []
        blocks.append((int(m.group(1)), int(m.group(2)), ops))
    problems = []
    if "panic" in ans:
        problems.append("finish panicked after a take")
    flat = [op for b in blocks for op in b[2]]
    if flat != [bytes(b) for _, b in its]:
        problems.append("blocks do not concatenate to the input")
    idx = 0
    for k, (off, size, ops) in enumerate(blocks):
        if not ops:
            problems.append(f"block {k} empty")
            continue
        if off != its[idx][0]:
            problems.append(f"block {k} offset {off} != offset of its first instruction {its[idx][0]}")
        if size != sum(len(o) for o in ops):
            problems.append(f"block {k} size")
        for j, o in enumerate(ops):
            if o[0] in JT and j != 0:
                problems.append(f"jumpdest inside block {k}")
            if (o[0] in JMP or is_halt(o[0])) and j != len(ops) - 1:
                problems.append(f"jump/halt inside block {k}")
        idx += len(ops)
    for k in range(len(blocks) - 1):
        a, b = blocks[k], blocks[k + 1]
        # consecutive input offsets => offset chain
        if b[0] == a[0] + a[1]:
            continue
        # only a violation when the instruction offsets themselves were consecutive
        i0 = sum(len(x[2]) for x in blocks[:k + 1])
        if its[i0][0] == its[i0 - 1][0] + len(its[i0 - 1][1]) and all(
                its[j + 1][0] == its[j][0] + len(its[j][1]) for j in range(i0 - len(a[2]), i0)):
            problems.append(f"block {k+1} offset != previous offset + size")
    return problems


def check(run):
    rng = run.rng
    proof_ok = run.prove()
    ok, out, dt = common.build_harness(False)
    if not ok:
        run.violation_unproved("harness-build", out)
        return run.finish(trusted=TRUSTED)
    cases = []
    n = 1500 if run.tier == "thorough" else 300
    for i in range(n):
        k = rng.choice([0, 1, 2, 3, 5, 8, 13, 30])
        its = gen_instrs(rng, k, consecutive=rng.random() < 0.85)
        toks = gen_schedule(rng, k)
        cases.append(dict(req=to_req(its, toks), coq=to_coq(its, toks), cat="finish-untaken" if toks[-2:] != ["T", "F"] else "collect", its=its, toks=toks))
    for k in ((1500, 4000) if run.tier != "thorough" else (1500, 4000, 20000)):      # long streams
        its = gen_instrs(rng, k, consecutive=True)
        toks = gen_schedule(rng, k)
        cases.append(dict(req=to_req(its, toks), coq=to_coq(its, toks), cat="long", its=its, toks=toks))
    # long blocks: a run of L non-terminating instructions, then each kind of boundary, then a little more --
    # whatever the length of the block in progress, the boundary instruction must still cut it
    lens = [255, 256, 257, 1023, 1024, 1025, 2048, 4096] + ([4097, 8192] if run.tier == "thorough" else [])
    for L in lens:
        for term in (0x56, 0x57, 0x00, 0x5B, 0xFE, 0x0C):
            if run.tier != "thorough" and L not in (1024, 1025) and term not in (0x56, 0x5B):
                continue
            its, off = [], 0
            for _ in range(L):
                c = rng.choice([0x58, 0x50, 0x80, 0x60, 0x61])
                k = c - 0x5F if 0x60 <= c <= 0x7F else 0
                its.append((off, [c] + [rng.randrange(256) for _ in range(k)]))
                off += 1 + k
            for c in (term, 0x60, 0x01, 0x00, 0x58):
                k = 1 if c == 0x60 else 0
                its.append((off, [c] + [7] * k))
                off += 1 + k
            n_its = len(its)
            toks = rng.choice([[f"A{n_its}", "T", "F"], ["P"] * n_its + ["T", "F"], [f"A{L - 1}", "T", "P", "P", "T", f"A{n_its - L - 1}", "T", "F"]])
            cases.append(dict(req=to_req(its, toks), coq=to_coq(its, toks), cat="long-block", its=its, toks=toks))
    dis = common.correspond(run, cases, IMPORTS, canon=canon, tag="c16")
    run.corr["rule"] = ("random instruction sequences over {jumpdest, jump/jumpi, halting incl. undefined opcodes, pushes, ordinary} x random schedules of push/push_all(k)/take/finish; long streams (1500, 4000; 20000 thorough); long blocks (255..4096 instructions, up to 8192 thorough) ended by each kind of boundary; "
                        "distinct = distinct (sequence, schedule) pairs")
    found = 0
    for c in cases:
        problems = oracle(c["impl"] or "", c["its"], c["toks"])
        if problems:
            found += 1
            if found <= 3:
                run.violation(dict(property="C16", history=c["req"], impl=c["impl"], problems=problems,
                                   replay=f"echo '{c['req']}' | .cache/target/debug/etk-vh"))
    if (not proof_ok or dis) and not found:
        if dis:
            d = dis[0]
            run.log(f"DISAGREE {d['req']}: impl={d['impl']!r} model={d['model']!r}")
            run.violation_unproved("correspondence Model/Blocks.v vs etk-dasm basic.rs", dict(request=d["req"], impl=d["impl"], model=d["model"], n=len(dis)))
        else:
            run.violation_unproved("theorems of Props/C16.v", run.proof["log"])
    return run.finish(trusted=TRUSTED)


def replay(obj):
    print(obj)
    if "replay" in obj:
        rc, out = common.sh(obj["replay"], cwd=common.VERIF)
        print(out)
    return 0
