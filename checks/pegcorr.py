"""Correspondence of the model of the parser FROM SOURCE TEXT with etk-asm, in three layers, on every text:

pairs  the PEG model (coq/Model/Peg.v interpreting the generated coq/Gen/AsmGrammar.v) against the pest
       parser (harness command `peg`, hook etk_asm::verif_parse_pairs): both sides print `err` or the
       flattened pre-order list of pairs `rule:start-end` (byte offsets) of `AsmParser::parse(Rule::program, text)`;
tree   pairs -> syntax tree (coq/Model/ParseTree.v: parse/mod.rs, macros.rs, expression.rs, args.rs) against
       `parse_asm` (harness command `parse_debug`, hook etk_asm::verif_parse_debug): the Debug rendering of
       the nodes, or the kind of the ParseError;
asm    text -> bytes (`run_asm_text` = ParseTree then Model/Asm.v) against `Ingest::ingest` (harness command
       `asm`), for the texts in which the model finds no file directive (those need a file system: C12/C18).

The model is evaluated once per text (`run_text_all` shares the parse); the check is a string comparison.

run_peg(run) -> (n_cases, disagreements, distribution)
"""
import re
from lib import asmgen as G, common

IMPORTS = "From Verif Require Import Model.Base Model.PegAst Gen.AsmGrammar Model.Peg Model.ParseTree."

PLAIN_OPS = None
IDENTS = ["a", "x", "loop", "lb0", "L_1", "end_", "Z9", "f", "m1", "selector", "topic", "push", "push1", "stop", "jumpdest1", "u_"]   # a label cannot start with `_` (a macro name can)
NONASCII = ["\u00e9", "\u03bb", "\u20ac", "\U0001f600", "\u00a0", "\u2028"]
ALPHABET = list("%$()\"\\:;#+-*/,._ \t\n\r0123456789abcdefxXobpushmacrondl") + ["\u00e9", "\U0001f600"]


def _ops():
    global PLAIN_OPS
    if PLAIN_OPS is None:
        t = G.table()
        PLAIN_OPS = sorted(m for m, (c, x) in t.items() if x == 0)
    return PLAIN_OPS


def ws(rng, must=False):
    r = rng.random()
    if must:
        return rng.choice([" ", " ", "\t", "  ", " \t "])
    return rng.choice(["", "", "", " ", "  ", "\t"]) if r < 0.8 else " \t"


def number(rng):
    v = rng.choice([0, 1, 7, 255, 256, 65535, rng.getrandbits(rng.randrange(1, 70))])
    r = rng.random()
    if r < 0.4:
        return str(v)
    if r < 0.6:
        h = "%x" % v
        if len(h) < 2 or rng.random() < 0.3:
            h = "0" + h
        return "0x" + (h.upper() if rng.random() < 0.2 else h)
    if r < 0.75:
        return "0b" + bin(v)[2:]
    if r < 0.9:
        return "0o" + oct(v)[2:]
    return "-" + str(v)


def sig(rng):
    args = [rng.choice(["uint256", "address", "bytes32", "x"]) for _ in range(rng.randrange(0, 4))]
    # function_parameter* ~ ("," ~ function_parameter)*  inside an atomic rule: no blanks
    return rng.choice(["transfer", "f", "_g", "Approval"]) + "(" + ",".join(args) + ")"


def term(rng, depth):
    r = rng.random()
    if depth > 3 or r < 0.35:
        return number(rng)
    if r < 0.5:
        return rng.choice(IDENTS)
    if r < 0.58:
        return "$" + rng.choice(["x", "a1", "Zz"])
    if r < 0.66:
        return rng.choice(["selector", "topic"]) + '("' + sig(rng) + '")'
    if r < 0.8:
        sep = "," + ws(rng)
        return rng.choice(["f", "_g", "k2"]) + "(" + ws(rng) + sep.join(expr(rng, depth + 1) for _ in range(rng.randrange(0, 4))) + ws(rng) + ")"
    return "(" + ws(rng) + expr(rng, depth + 1) + ws(rng) + ")"


def expr(rng, depth=0):
    out = term(rng, depth)
    for _ in range(rng.choice([0, 0, 1, 1, 2, 3])):
        out += ws(rng) + rng.choice("+-*/") + ws(rng) + term(rng, depth + 1)
    return out


def string_lit(rng):
    body = ""
    for _ in range(rng.randrange(0, 8)):
        body += rng.choice(["a", "b.etk", "/", "..", " ", "\\\\", "\\\"", "#", ";", "x y", rng.choice(NONASCII)])
    return '"' + body + '"'


def comment(rng):
    return "#" + rng.choice(["", " c", " push1 1 ; stop", "#", " \"", " " + rng.choice(NONASCII) + " x", "\t%end"])


def params(rng):
    ps = [rng.choice(["a", "b", "x1", "Zz"]) for _ in range(rng.randrange(0, 4))]
    return "(" + ws(rng) + ("," + ws(rng)).join(ps) + ws(rng) + ")"


def simple_stmt(rng, in_macro=False):
    r = rng.random()
    if r < 0.3:
        return rng.choice(_ops())
    if r < 0.55:
        return "push" + str(rng.randrange(1, 33)) + rng.choice([" ", " ", "\t"]) + expr(rng)
    if r < 0.65:
        return rng.choice(IDENTS) + ws(rng) + ":"
    if r < 0.75:
        return "%push" + ws(rng) + "(" + ws(rng) + expr(rng) + ws(rng) + ")"
    if r < 0.87:
        sep = "," + ws(rng)
        return "%" + rng.choice(["m", "mac_1", "importx", "pushy"]) + "(" + sep.join(expr(rng, 1) for _ in range(rng.randrange(0, 3))) + ")"
    if in_macro:
        return rng.choice(_ops())
    return "%" + rng.choice(["import", "include", "include_hex"]) + ws(rng) + "(" + ws(rng) + string_lit(rng) + ws(rng) + ")"


def statement(rng, nl):
    r = rng.random()
    if r < 0.08:
        return "%def " + rng.choice(["f", "_g", "k2"]) + params(rng) + ws(rng) + nl + ws(rng) + expr(rng) + ws(rng) + nl + ws(rng) + "%end"
    if r < 0.16:
        body = ""
        for _ in range(rng.randrange(0, 4)):
            body += ws(rng) + simple_stmt(rng, True) + ws(rng) + (comment(rng) if rng.random() < 0.2 else "") + nl * rng.randrange(1, 3)
        return "%macro " + rng.choice(["m", "mac_1"]) + params(rng) + ws(rng) + nl * rng.randrange(0, 3) + body + ws(rng) + "%end"
    return simple_stmt(rng)


def program(rng):
    nl = rng.choice(["\n", "\n", "\n", "\r\n", "\r"])
    out = rng.choice(["", "", nl, nl + nl, "  ", "\t" + nl])
    n = rng.randrange(0, 14)
    for i in range(n):
        out += ws(rng) + statement(rng, nl) + ws(rng)
        if rng.random() < 0.2:
            out += comment(rng)
        if i + 1 < n or rng.random() < 0.6:
            r = rng.random()
            if r < 0.2 and not out.rstrip(" \t").endswith(tuple("#")) and "#" not in out.split(nl)[-1]:
                out += ";" + ws(rng)
            else:
                out += nl * rng.choice([1, 1, 1, 2, 3])
                if rng.random() < 0.15:
                    out += ws(rng) + comment(rng) + nl
    return out


GLUED = [
    "push1push1 1", "jumpdest1", "pushx", "push 1", "push0", "push0 1", "push33 1", "push32 1", "push321", "push1  1", "push1\t\t1", "push1\n1", "push1 1 1",
    "stopstop", "stop stop", "jumpi", "jumpix", "jump i", "dup17", "dup16", "dup0", "swap161", "log5", "log4", "mstore8", "mstore9", "create2", "create3", "origin:", "stop:",
    "pc:", "a :", "a: b: c:", "a:b:stop", "a:stop", "a: stop", "stop;", ";stop", "stop;;stop", "stop ; stop", "stop # x ; y", ";", ";;", "#", "# x", "#\n", "\n#", " ", "\t", "\n", "\r", "\r\n", "\n\r",
    "%", "%%", "%x", "%x()", "%x(", "%x ()", "% x()", "%push", "%push(1)", "%push (1)", "%push( 1 )", "%push()", "%push(1,2)", "%push(\"a\")", "%pushx(1)", "%push1(1)",
    "%import(\"a\")", "%import( \"a\" )", "%import (\"a\")", "%import(\"a\",\"b\")", "%import(\"a\",)", "%import(,)", "%import()", "%import(1)", "%import(\"a)", "%import(\"a\\\")", "%import(\"a\\\\\")", "%import(\"\\n\")",
    "%importx(\"a\")", "%include_hex(\"a\")", "%include_hexa(\"a\")", "%include(\"a\")", "%includes(\"a\")", "%unknown(\"a\")", "%unknown", "%end", "%def", "%macro",
    "%def f()\n1\n%end", "%def f()\n1\n%end\n", "%def f() \n 1 \n %end", "%def f()\n\n1\n%end", "%def f()\n1\n\n%end", "%def f()\n1 # c\n%end", "%def f() # c\n1\n%end", "%def f()\r\n1\r%end", "%def f()1\n%end", "%def  f()\n1\n%end", "%deff()\n1\n%end",
    "%def f(a b)\n1\n%end", "%def f(a,b,)\n1\n%end", "%def f(a,,b)\n1\n%end", "%def f(ab)\n1\n%end", "%def f(a)(b)\n1\n%end", "%def f(1)\n1\n%end", "%def 1f()\n1\n%end", "%def _()\n1\n%end",
    "%macro m()\n%end", "%macro m()%end", "%macro m() %end", "%macro m()\nstop\n%end", "%macro m()\nstop%end", "%macro m()\nstop %end", "%macro m()\nstop;stop\n%end", "%macro m()\n%push(1)\n%end", "%macro m()\n%import(\"a\")\n%end",
    "%macro m()\n%macro n()\n%end\n%end", "%macro m()\n%def f()\n1\n%end\n%end", "%macro m()\n%n()\n%end", "%macro m()\npush1 $a\n%end", "%macro m()\na:\n%end", "%macro m()\n# c\n%end", "%macro m() # c\n%end", "%macrom()\n%end", "%macro\tm()\n%end",
    "%macro m(a a)\n%end", "%macro m(a)\n%end\n%m(1)", "%macro m(a)\n%end;%m(1)", "%m(1)(2)", "%m(1", "%m 1)", "%m(1,)", "%m(,1)", "%m(1 2)", "%m(1,,2)", "%m(\"a\")",
    "push1 (1", "push1 1)", "push1 ((1))", "push1 (((1))", "push1 ()", "push1 (1)(2)", "push1 1+", "push1 +1", "push1 1++1", "push1 1+-1", "push1 1--1", "push1 1 - -1", "push1 -1", "push1 - 1", "push1 --1", "push1 1-1", "push1 1 -1", "push1 a-1", "push1 a -1",
    "push1 0x", "push1 0x1", "push1 0x12", "push1 0x123", "push1 0X12", "push1 0xfg", "push1 0xFF", "push1 0b", "push1 0b2", "push1 0b12", "push1 0o8", "push1 0o78", "push1 08", "push1 0", "push1 00", "push1 0x1g", "push1 1a", "push1 a1", "push1 1_000", "push1 _a",
    "push1 $", "push1 $x", "push1 $1", "push1 $ x", "push1 $x1", "push1 $x_1", "push1 f()", "push1 f ()", "push1 f( )", "push1 f(1)", "push1 f(1,2)", "push1 f(1 2)", "push1 f(1 , 2)", "push1 f(,)", "push1 f(", "push1 f(1,)", "push1 f(g(h(1)))", "push1 f(1)(2)",
    "push1 selector(\"f()\")", "push4 selector(\"f(uint256)\")", "push4 selector(\"f(uint256,address)\")", "push4 selector(\"f(uint256, address)\")", "push4 selector(\"f( )\")", "push4 selector (\"f()\")", "push4 selector(\"f()\" )", "push4 selector(\"f\")", "push4 selector(\"()\")",
    "push4 selector(\"f(a b)\")", "push4 selector(\"f(ab)\")", "push4 selector(\"f(a,)\")", "push4 selector(\"f(,a)\")", "push4 selector(\"1f()\")", "push32 topic(\"T(a,b)\")", "push32 topic(\"T(a,b)\")+1", "push32 topicx(\"T()\")", "push4 selector(1)", "push4 selector", "push4 selector+1", "push4 topic",
    "push1 1 # c", "push1 1# c", "push1 1 #", "push1 # c\n1", "push1 1 + # c\n2", "push1 1 +\n2", "push1 (1 # c\n)", "push1 (\n1)", "%push(1 # c\n)", "%push(1 # c)", "%push(\n1)",
    "push1 1;push1 2", "push1 1 ; push1 2", "push1 1;;", "a:;b:", "a:;", "push1 1\n\n\npush1 2\n", "\n\npush1 1", "  push1 1  ", "\tpush1\t1\t", "push1 1\r\npush1 2\r\n", "push1 1\rpush1 2", "push1 1\n\rpush1 2",
    "STOP", "Stop", "PUSH1 1", "push1 A", "push1 0XFF", "st op", "push1 1 /* c */", "push1 1 // c", "push1 '1'", "push1 \"1\"", "push1 1.5", "push1 1e3", "push1 @", "push1 1 & 2", "\x00", "stop\x00", "stop\x0b", "stop\x0c", "stop\u00a0", "stop\u2028stop", "stop\u0085stop",
    # conversion of pairs to the tree: orders of checks, blanks as separators, builtins in and out of macro bodies, nested definitions
    "%m(1 2)", "%m(1 -1)", "%m(1 (2))", "push1 f(1 2)", "push1 f(1 2,3)", "%macro m(a b)\npush1 $a+$b\n%end\n%m(1 2)", "%def f(a b)\n$a\n%end\npush1 f(1 2)",
    "% push(1)", "%macro m()\n% push(1)\n%end\n%m()", "%macro m()\n%push (1)\n%end\n%m()", "%macro m()\n%push(1,2)\n%end", "%macro m()\n%push()\n%end", "%macro m()\n%push(\"a\")\n%end",
    "%import(1, \"b\")", "%push(\"a\", 1)", "%include_hex(\"a\",\"b\")", "%include(\"a\\\\b\", \"c\")", "%import(\"a\nb\")", "%import(\"\")", "%include(\"\t\x01\x7f'\")",
    "%macro m()\n%macro n()\npc\n%end\n%end\n%m()\n%n()", "%macro m()\n%def f()\n1\n%end\n%end\n%m()\npush1 f()", "%macro m()\npush1 256\n%end", "%macro m()\n%macro n()\npush1 0x100\n%end\n%end",
    "%macro m(x)\na:\npush1 $x+a\n%push(a)\n%end\n%m(1)\n%m(2)", "%def f(x)\n$x*2\n%end\n%macro m(y)\npush1 f($y)\n%end\n%m(f(3))", "push1 -0", "push1 0-1", "push2 0x123", "push1 08", "push1 0b11111111", "push1 0o400",
    "stop:\npush1 stop", "push1:\npush1 push1", "selector:\npush1 selector", "push4 selector(\"f()\")+topic(\"g(x)\")/topic(\"g(x)\")", "push32 topic(\"f()\")", "push31 topic(\"f()\")", "push1 1+2*3-4/2", "push1 (1+2)*3", "push1 2*(3-1)/(1+1)", "push1 1/0", "%push(1/0)",
    "# \u00e9", "# \U0001f600\nstop", "#\u00e9", "%import(\"\u00e9\")", "%import(\"\U0001f600\\\"\")", "%include(\"a\u20acb\")", "push1 \u00e9", "\u00e9:", "a\u00e9:", "stop # \u03bb\r\npc", "stop\u00e9", "\u00e9", "\ufeffstop",
]


def mutate(rng, s):
    b = list(s)
    for _ in range(rng.choice([1, 1, 1, 2, 3])):
        r = rng.random()
        pos = rng.randrange(0, len(b) + 1)
        if r < 0.25 and b:
            del b[min(pos, len(b) - 1)]
        elif r < 0.4 and b:
            i = min(pos, len(b) - 1)
            b.insert(i, b[i])                       # duplicate a character (doubled separators among them)
        elif r < 0.65:
            b.insert(pos, rng.choice(ALPHABET))
        elif r < 0.8 and b:
            b[min(pos, len(b) - 1)] = rng.choice(ALPHABET)
        elif r < 0.9:
            b = b[:pos]                             # truncation
        else:
            j = rng.randrange(0, len(b) + 1)
            b = b[:pos] + b[min(pos, j):max(pos, j)] + b[pos:]
    return "".join(b)


def texts(run):
    rng = run.rng
    thorough = run.tier == "thorough"
    out = []
    for t in GLUED:
        out.append(("special", t))
    # programs printed from the shared generators (what every assembler-family case feeds to pest)
    from checks import c02, c10, c11, c13
    table = G.table()
    gens = []
    for _ in range(60 if thorough else 12):
        gens.append(c02.gen_prog(rng, table))
        gens.append(c10.gen_case(rng))
        gens.append(c11.gen_case(rng, rng.random() < 0.25)[0])
        gens.append(c13.base_program(rng))
    for p in gens:
        out.append(("generator", G.prog_src(p)))
        out.append(("generator-layout", c02.layout_src(rng, p)))
    # programs over every statement kind of the grammar, random layout
    wf = [program(rng) for _ in range(900 if thorough else 150)]
    for t in wf:
        out.append(("grammar-program", t))
    # malformed stream
    pool = wf + [t for _, t in out[:len(GLUED)]] + [G.prog_src(p) for p in gens[:8]]
    for _ in range(1500 if thorough else 220):
        out.append(("mutation", mutate(rng, rng.choice(pool))))
    for _ in range(200 if thorough else 30):
        a, b = rng.choice(pool), rng.choice(pool)
        out.append(("glued", a[:rng.randrange(0, len(a) + 1)] + b[rng.randrange(0, len(b) + 1):]))
    res = []
    seen = set()
    for cat, t in out:
        try:
            raw = t.encode("utf-8")
        except UnicodeEncodeError:
            continue
        if len(raw) > 3000 or t in seen:
            continue
        seen.add(t)
        res.append((cat, t, raw))
    return res


def _tree_text(ans):
    """`ok:<hex>` of parse_debug -> the text, with Rust's `\\u{..}` escapes of unprintable NON-ASCII characters
    (only paths can hold them) undone: the model copies those bytes"""
    if not (ans or "").startswith("ok:"):
        return (ans or "").strip()
    try:
        t = bytes.fromhex(ans[3:].strip()).decode("utf-8", "replace")
    except ValueError:
        return ans
    return "ok:" + re.sub(r"\\u\{([0-9a-f]{2,6})\}", lambda m: chr(int(m.group(1), 16)) if int(m.group(1), 16) >= 0x80 else m.group(0), t)


def run_peg(run, timeout=600):
    cases = texts(run)
    # the model must be compiled whatever property file is being checked (and Gen/AsmGrammar.v fresh)
    ok, out = common.regen()
    if ok:
        okm, outm, _ = common.coq_make(["Model/ParseTree.vo"], timeout=900)
        if not okm:
            run.notes.append("peg: Model/ParseTree.vo does not build: " + outm[-500:])
    else:
        run.notes.append("peg: translator failed: " + out[-500:])
    reqs = []
    for _, _, raw in cases:
        h = raw.hex() or "-"
        reqs += ["peg " + h, "parse_debug " + h, "asm " + h]
    impl, rc, rawout = common.run_harness(reqs, timeout=timeout)
    if len(impl) != len(reqs):
        impl = []
        for r in reqs:
            one, rc1, raw1 = common.run_harness([r], timeout=60)
            impl.append(one[0] if one else f"crash:rc={rc1}")
    exprs = ["run_text_all " + common.coq_bytes(list(raw)) for _, _, raw in cases]
    model, errors = common.coq_eval(IMPORTS, exprs, timeout=timeout, tag="peg" + run.pid)
    dist = {}
    dis = []
    for k, ((cat, t, raw), b) in enumerate(zip(cases, model)):
        a_peg, a_tree, a_asm = impl[3 * k], impl[3 * k + 1], impl[3 * k + 2]
        parts = (b or "").split("|")
        b_peg, b_tree, b_asm = (parts + [None, None, None])[:3] if b is not None and len(parts) == 3 else (b, None, None)
        ok = "parses" if (a_peg or "").strip() != "err" else "rejected"
        key = f"peg:{cat}:{ok}"
        dist[key] = dist.get(key, 0) + 1
        if common.canon_default(a_peg) != common.canon_default(b_peg):
            dis.append(dict(cat=cat, what="pairs", text=t, hex=raw.hex(), impl=a_peg, model=b_peg))
            continue
        # pairs -> tree
        ta, tb = common.canon_default(_tree_text(a_tree)), common.canon_default(_tree_text(b_tree))
        kind = "tree" if ta.startswith("ok:") else ta.split("(")[0]
        dist["text:" + kind] = dist.get("text:" + kind, 0) + 1
        if ta != tb:
            dis.append(dict(cat=cat, what="tree", text=t, hex=raw.hex(), impl=ta, model=tb))
            continue
        # text -> bytes, single-file programs
        if (b_asm or "").strip() == "directive":
            dist["text:asm-skipped-directive"] = dist.get("text:asm-skipped-directive", 0) + 1
            continue
        ka = "asm-ok" if (a_asm or "").startswith("ok:") else "asm-" + (a_asm or "crash")[4:].split("(")[0].split(" ")[0]
        dist["text:" + ka] = dist.get("text:" + ka, 0) + 1
        if common.canon_default(a_asm) != common.canon_default(b_asm):
            dis.append(dict(cat=cat, what="asm", text=t, hex=raw.hex(), impl=a_asm, model=b_asm))
    if errors and any(m is None for m in model):
        run.notes.append("peg: coq evaluation errors: " + " | ".join(e[-300:] for e in errors[:2]))
    if cases:
        cat, t, raw = cases[len(GLUED) // 2]
        run.samples.append(dict(request=("peg|parse_debug|asm " + raw.hex())[:300], impl=" | ".join(str(x) for x in impl[3 * (len(GLUED) // 2):3 * (len(GLUED) // 2) + 3])[:400], model=(model[len(GLUED) // 2] or "")[:400]))
    return len(cases), dis, dist


WHAT = {"pairs": "PEG model of asm.pest (Model/Peg.v) vs the pest parser (pairs of Rule::program)",
        "tree": "pairs -> syntax tree (Model/ParseTree.v) vs parse_asm (Debug rendering of the nodes / ParseError kind)",
        "asm": "source text -> bytes (Model/ParseTree.v + Model/Asm.v) vs Ingest::ingest"}


def describe(d):
    return "correspondence: " + WHAT.get(d.get("what", "pairs"), "text model")


def report(run, proof_found_failure=False):
    """shared tail for the callers: run, account, log.  Returns the disagreements."""
    n, dis, dist = run_peg(run)
    run.corr["cases"] += 3 * n
    run.corr["distinct"] = run.corr.get("distinct", 0) + n
    run.corr["disagreements"] += len(dis)
    for k, v in dist.items():
        run.corr["distribution"][k] = run.corr["distribution"].get(k, 0) + v
    if dis:
        d = dis[0]
        run.log(f"TEXT MODEL DISAGREE ({len(dis)}) [{d['what']}] text={d['text'][:200]!r}: impl={str(d['impl'])[:300]!r} model={str(d['model'])[:300]!r}")
    else:
        run.log(f"text model vs pest / parse_asm / Ingest::ingest: {n} texts agree (pairs, tree, bytes)")
    return dis
