"""Shared machinery for the analysis properties (C05 C15 C20): bytecode generators, parsing of the
harness's annotated blocks and DOT output, translation to Coq terms of Model/Cfg.v, solving the
model's queries with z3 (python binding in a child process)."""
import re
from lib import common
from checks import c05ops

IMPORTS = ("From Verif Require Import Model.Base Model.Sym Spec.SmtBv Model.Z3Tr Model.Cfg.\n"
           "Open Scope Z_scope.")

SYM_COQ = {n: "S" + n for n in c05ops.SYMS}


# ---------------------------------------------------------------- expressions printed by the harness
def parse_expr(s):
    """`Add(c2,var1)` -> nested tuples (name, [args]) / ('c', v) / ('var', n) / ('pc', n)"""
    pos = 0

    def rd():
        nonlocal pos
        m = re.match(r"[A-Za-z0-9_]+", s[pos:])
        name = m.group(0)
        pos += len(name)
        if pos < len(s) and s[pos] == "(":
            pos += 1
            args = []
            if s[pos] == ")":
                pos += 1
                return (name, args)
            while True:
                args.append(rd())
                ch = s[pos]
                pos += 1
                if ch == ")":
                    break
            return (name, args)
        if name.startswith("var"):
            return ("var", int(name[3:]))
        if name.startswith("pc"):
            return ("pc", int(name[2:]))
        if name.startswith("c"):
            return ("c", int(name[1:], 16))
        raise ValueError("bad expr " + s)

    e = rd()
    return e


def expr_syms(e, out):
    if e[0] == "c":
        out.append(f"SConst {e[1]}")
    elif e[0] == "var":
        out.append(f"SVar {e[1]}")
    elif e[0] == "pc":
        out.append(f"SGetPc {e[1]}")
    else:
        out.append(SYM_COQ[e[0]])
        for a in e[1]:
            expr_syms(a, out)


def expr_coq(e):
    out = []
    expr_syms(e, out)
    return "[" + "; ".join(out) + "]"


BLK = re.compile(r"blk\(off=(\d+),size=(\d+),jt=([01]),in=\[([^\]]*)\],out=\[(.*?)\],exit=(.*)\)$")


def parse_blocks(ans):
    """harness `annot` answer -> list of dict(off,size,jt,exit=(kind,...))"""
    blocks = []
    for tok in ans.split(" "):
        if tok == "-" or not tok:
            continue
        if tok.startswith("panic"):
            return None
        m = BLK.match(tok)
        if not m:
            raise ValueError("cannot parse block: " + tok[:200])
        ex = m.group(6)
        if ex == "term":
            exit_ = ("term",)
        elif ex.startswith("fall("):
            exit_ = ("fall", int(ex[5:-1]))
        elif ex.startswith("jump("):
            exit_ = ("jump", parse_expr(ex[5:-1]))
        elif ex.startswith("branch("):
            c, t, f = ex[7:-1].split(";")
            exit_ = ("branch", parse_expr(c), parse_expr(t), int(f))
        else:
            raise ValueError("exit " + ex)
        blocks.append(dict(off=int(m.group(1)), size=int(m.group(2)), jt=m.group(3) == "1", exit=exit_,
                           nin=len([x for x in m.group(4).split(";") if x]), outs=m.group(5)))
    return blocks


def blocks_coq(blocks):
    items = []
    for b in blocks:
        x = b["exit"]
        if x[0] == "term":
            e = "ATerminate"
        elif x[0] == "fall":
            e = f"(AFallThrough {x[1]})"
        elif x[0] == "jump":
            e = f"(AUnconditional {expr_coq(x[1])})"
        else:
            e = f"(ABranch {expr_coq(x[1])} {expr_coq(x[2])} {x[3]})"
        items.append(f"mkab {b['off']} {'true' if b['jt'] else 'false'} {e}")
    return "[" + "; ".join(items) + "]"


# ---------------------------------------------------------------- DOT
def parse_dot(text):
    """-> (labels: list in node order, edges: list of (from_label, to_label))"""
    labels = {}
    order = []
    edges = []
    for line in text.splitlines():
        m = re.match(r'\s*(\d+) \[ label = "(.*)" \]', line)
        if m:
            labels[int(m.group(1))] = m.group(2)
            order.append(m.group(2))
            continue
        m = re.match(r"\s*(\d+) -> (\d+) \[", line)
        if m:
            edges.append((labels[int(m.group(1))], labels[int(m.group(2))]))
    return order, edges


def parse_model_cfg(s):
    """`ok:<labels>|<edges>` -> (labels, edges)"""
    if not s or not s.startswith("ok:"):
        return None
    lab, _, ed = s[3:].partition("|")
    labels = [x for x in lab.split(";") if x]
    edges = []
    for e in ed.split(";"):
        if e:
            a, b = e.split(" -> ")
            edges.append((a, b))
    return labels, edges


# ---------------------------------------------------------------- solving the model's queries
def solve_queries(qtext):
    """`edge @@ query ;; edge @@ query ...` -> dict edge -> keep (True/False/None=unknown)"""
    items = []
    for part in qtext.split(" ;; "):
        if not part:
            continue
        edge, _, q = part.partition(" @@ ")
        a, b = edge.split(" -> ")
        items.append(((a, b), q))
    scripts, idx = [], []
    keep = {}
    for i, (e, q) in enumerate(items):
        if q.startswith("const:"):
            keep[e] = q.endswith("1")
        elif q.startswith("solve:"):
            body = q[6:]
            consts, funs = set(), set()
            for form in c05ops.parse_sexprs(body):
                c05ops.symbols_of(form, consts, funs)
            consts.discard("assert")
            decl = [f"(declare-fun {c} () (_ BitVec 256))" for c in sorted(consts)]
            decl += [f"(declare-fun {f} ({' '.join(['(_ BitVec 256)'] * ar)}) (_ BitVec 256))" for f, ar in sorted(funs) if f != "assert"]
            scripts.append("\n".join(decl) + "\n" + body)
            idx.append(e)
        else:
            keep[e] = None      # panic / error in the model
    res = c05ops.z3_refute(scripts, hard_cap=15, timeout_ms=6000)
    for e, r in zip(idx, res):
        keep[e] = None if r is None or r["r"] not in ("sat", "unsat") else (r["r"] == "sat")
    return keep, items


# ---------------------------------------------------------------- bytecode generators
def push(v, n=None):
    if n is None:
        n = max(1, (v.bit_length() + 7) // 8)
    return bytes([0x5F + n]) + v.to_bytes(n, "big")


PURE_BIN = [0x01, 0x02, 0x03, 0x04, 0x05, 0x06, 0x07, 0x10, 0x11, 0x12, 0x13, 0x14, 0x16, 0x17, 0x18, 0x1A, 0x1B, 0x1C, 0x1D, 0x0B]


def gen_code(rng, allow_state=True):
    """a small program of 1-6 blocks with constant, computed and symbolic jump targets"""
    nblocks = rng.randrange(1, 6)
    chunks = []
    # lay out first with placeholder targets, then patch: simpler -- fixed-size blocks
    est_offsets = []
    blocks_src = []
    for i in range(nblocks):
        blocks_src.append(dict(jd=rng.random() < 0.7, kind=rng.choice(["jump", "jumpi", "stop", "fall", "jump", "jumpi", "ret", "inv"])))
    # two passes to get offsets right
    targets = [0] * nblocks
    code = b""
    for _ in range(2):
        code = b""
        offs = []
        for i, b in enumerate(blocks_src):
            offs.append(len(code))
            rng2 = __import__("random").Random(hash((i, len(blocks_src), b["kind"], 7)))
            body = b""
            if b["jd"]:
                body += b"\x5b"
            k = b["kind"]
            if k in ("jump", "jumpi"):
                mode = b.setdefault("mode", rng.choice(["const", "const", "bad", "arith", "sym", "entry", "arith2"]))
                tgt = targets[b.setdefault("to", rng.randrange(nblocks))]
                if k == "jumpi":
                    cmode = b.setdefault("cmode", rng.choice(["one", "zero", "sym", "cmp", "entry"]))
                    if cmode == "one":
                        body += push(1)
                    elif cmode == "zero":
                        body += push(0)
                    elif cmode == "sym":
                        body += b"\x34"                      # callvalue
                    elif cmode == "cmp":
                        body += push(3) + b"\x36" + b"\x10"  # calldatasize < 3
                    else:
                        pass                                  # condition from the entry stack
                if mode == "const":
                    body += push(tgt, 2)
                elif mode == "bad":
                    body += push(tgt + 1, 2)
                elif mode == "arith":
                    op = b.setdefault("op", rng.choice([0x01, 0x03, 0x16, 0x17, 0x18, 0x1B, 0x1C, 0x1A, 0x06, 0x07, 0x05, 0x0B, 0x08, 0x09]))
                    a = b.setdefault("a", rng.randrange(0, 300))
                    if op in (0x08, 0x09):
                        body += push(rng2.randrange(1, 50)) + push(tgt, 2) + push(a, 2) + bytes([op])
                    else:
                        body += push(tgt, 2) + push(a, 2) + bytes([op])
                elif mode == "arith2":
                    # tgt = (tgt + k) - k with 256-bit wrap
                    kk = b.setdefault("kk", rng.choice([1, 2 ** 255, 2 ** 256 - 1]))
                    body += push(kk, 32) + push((tgt + kk) % 2 ** 256, 32) + b"\x03"
                elif mode == "sym" and allow_state:
                    body += push(b.setdefault("slot", rng.randrange(4))) + bytes([b.setdefault("rd", rng.choice([0x54, 0x35, 0x51]))])
                elif mode == "sym":
                    body += b"\x33"
                else:
                    pass                                      # target from the entry stack
                body += b"\x56" if k == "jump" else b"\x57"
            elif k == "stop":
                body += b"\x00"
            elif k == "ret":
                body += push(0) + push(0) + rng.choice([b"\xf3", b"\xfd"])
            elif k == "inv":
                body += bytes([b.setdefault("inv", rng.choice([0xFE, 0x0C, 0xEF, 0xFF]))]) if b.get("inv", 0) != 0xFF else push(0) + b"\xff"
            else:
                body += bytes([b.setdefault("f", rng.choice([0x58, 0x33, 0x5A]))]) + b"\x50"
            code += body
        targets = offs
    if rng.random() < 0.15:
        code += bytes([0x5F + rng.randrange(2, 33)]) + b"\x01"     # truncated trailing push
    return code


def imm_for(b):
    return bytes([0xAB] * (b - 0x5F)) if 0x60 <= b <= 0x7F else b""


def opcode_position_codes():
    """every opcode byte alone, first, middle and last in a block, and feeding a jump target and a
    branch condition (operands supplied by pushes so that the expression is closed)"""
    out = []
    pushes = b"".join(b"\x60" + bytes([i + 1]) for i in range(8))        # 8 operands on the stack
    for b in range(256):
        ins = bytes([b]) + imm_for(b)
        out.append(("alone", b, ins))
        out.append(("first", b, ins + b"\x58\x50\x00"))
        out.append(("middle", b, b"\x5b" + pushes + ins + b"\x58\x50\x00"))
        out.append(("last", b, b"\x5b\x58\x50" + ins))
        out.append(("target", b, b"\x5b" + pushes + ins + b"\x56" + b"\x5b\x00"))
        out.append(("condition", b, b"\x5b" + pushes + ins + b"\x60\x00" + b"\x57" + b"\x5b\x00"))
        out.append(("entry-stack", b, ins + b"\x56\x5b\x00"))
        # as the second (deeper) operand of the target expression: sub(5, ins(...)), and with a sibling
        # on each side: addmod(7, ins(...), <next stack item>)
        out.append(("second-operand", b, b"\x5b" + pushes + ins + b"\x60\x05\x03\x56" + b"\x5b\x00"))
        out.append(("middle-operand", b, b"\x5b" + pushes + ins + b"\x60\x07\x08\x56" + b"\x5b\x00"))
    return out


def systematic_codes():
    """every combination of exit kind x condition kind x target kind over a fixed three-block skeleton:
    block A (the exit under test), the block that follows it (jumpdest-headed or not), one more
    jumpdest-headed block further on.  Returns (name, code)."""
    out = []
    conds = {"c0": push(0), "c1": push(1), "cbig": push(1 << 255, 32), "csym": b"\x34", "centry": b""}
    for follow_jd in (True, False):
        follow = (b"\x5b" if follow_jd else b"\x58\x50") + b"\x00"
        far = b"\x5b\x00"
        for exitk in ("jump", "jumpi"):
            for cname, cbytes in (conds.items() if exitk == "jumpi" else [("-", b"")]):
                for tname in ("next", "far", "mid-block", "beyond", "sym", "entry"):
                    # two passes: the target constants depend on the length of block A
                    a_len = 0
                    for _ in range(3):
                        next_off = a_len
                        far_off = a_len + len(follow)
                        tgt = {"next": push(next_off, 2), "far": push(far_off, 2), "mid-block": push(next_off + 1, 2),
                               "beyond": push(far_off + 40, 2), "sym": push(0) + b"\x35", "entry": b""}[tname]
                        a = (cbytes if exitk == "jumpi" else b"") + tgt + (b"\x57" if exitk == "jumpi" else b"\x56")
                        a_len = len(a)
                    out.append((f"sys-{exitk}-{cname}-{tname}-{'jd' if follow_jd else 'plain'}", a + follow + far))
    return out


LITERALS = [0, 1, 2, 30, 31, 32, 33, 255, 256, 257, (1 << 64) - 1, 1 << 64, (1 << 255) - 1, 1 << 255, (1 << 256) - 1]


def literal_operand_codes(ops=None, huge_exp=False):
    """push b; push a; OP; jump; jumpdest; stop for every binary pure opcode and every pair (a, b) in which
    one operand runs over the boundary literals and the other is 5 (a = first operand = top of stack):
    translation arms with special cases for literal operands (shift amounts, byte indices, signextend sizes,
    exponents) are exercised on every threshold.  Returns (name, code)."""
    out = []
    for op in (ops or PURE_BIN):
        for v in LITERALS:
            for first in (True, False):
                if op == 0x0A and not first and v == (1 << 64) - 1 and not huge_exp:
                    continue          # the MODEL's term for a literal exponent e is a tree with ~2e leaves
                a, b = (v, 5) if first else (5, v)
                out.append((f"lit-{op:02x}-{'a' if first else 'b'}", push(b) + push(a) + bytes([op]) + b"\x56\x5b\x00"))
    return out


HARD_CODES = [
    # targets the solver cannot decide within its budget: every edge must be kept
    ("hard-mulmod", bytes.fromhex("5b60403560203560003509565b00")),
    ("hard-mulmod-branch", bytes.fromhex("60403560203560003509600c575b005b00")),
]


def long_block_codes():
    """blocks whose symbolic stack grows large (limits on the simulated stack, quadratic bookkeeping):
    n x push0 / n x dup1 / alternating push-dup-swap, ending in stop or in a jump over the pile"""
    out = []
    for n in (1023, 1024, 1025, 1026, 2000):
        out.append((f"long-push0-{n}", b"\x5f" * n + b"\x00"))
        out.append((f"long-dup1-{n}", b"\x00\x5b\x5f" + b"\x80" * n + b"\x00"))
    out.append(("long-mixed-1500", (b"\x5f\x80\x90") * 500 + b"\x56\x5b\x00"))
    out.append(("long-pops-1500", b"\x50" * 1500 + b"\x00"))
    out.append(("long-swap16-1200", (b"\x9f\x50") * 600 + b"\x00"))
    return out
