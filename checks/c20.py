"""C20 -- the control-flow graph is structurally well formed."""
from lib import common, e2e
from checks import cfgcommon as C

TRUSTED = [
    "Coq 8.16.1 kernel incl. vm_compute; axioms: none",
    "Model/Cfg.v: hand-written model of ControlFlowGraph::{new, shallow_*, refine_shallow}; the solver is a parameter of the model and a hypothesis (soundness: Unsat only for unsatisfiable queries) of the successor theorem",
    "Spec/SmtBv.v (reading of SMT-LIB bit-vectors) and Model/Z3Tr.v (term translation, cross-checked against the real z3 terms by checks/c05ops.py)",
    "the annotated blocks fed to the model are the implementation's own (harness `annot`), whose agreement with concrete execution is C06's subject",
    "petgraph (graph storage, Dot printer) is not modelled: the DOT text is parsed and compared as node/edge sets",
    "z3 (python binding 5.1, child process) answers the model's queries in the differential run; harness crate and python driver",
]


def oracle(blocks, dot0, dot1):
    """the property on the implementation's own output"""
    problems = []
    for name, dot in (("initial", dot0), ("refined", dot1)):
        labels, edges = dot
        want = ["<terminate>", "<bad-jump>"] + [f"Offset: 0x{b['off']:x}" for b in blocks]
        if sorted(labels) != sorted(want):
            problems.append(f"{name}: nodes {sorted(labels)} != one per block plus the two special nodes {sorted(want)}")
        if len(set(labels)) != len(labels):
            problems.append(f"{name}: a node is named more than once")
        if len(set(edges)) != len(edges):
            problems.append(f"{name}: an edge is listed more than once")
        jts = {f"Offset: 0x{b['off']:x}" for b in blocks if b["jt"]}
        byoff = {f"Offset: 0x{b['off']:x}": b for b in blocks}
        for a, t in edges:
            if a in ("<terminate>", "<bad-jump>"):
                problems.append(f"{name}: special node {a} has a successor")
                continue
            b = byoff.get(a)
            ft = None
            if b and b["exit"][0] == "fall":
                ft = b["exit"][1]
            if b and b["exit"][0] == "branch":
                ft = b["exit"][3]
            if t not in ("<terminate>", "<bad-jump>") and t not in jts and t != (f"Offset: 0x{ft:x}" if ft is not None else None):
                problems.append(f"{name}: edge {a} -> {t} leads to a block that is neither jumpdest-headed nor the next block")
    labels, edges = dot1
    for b in blocks:
        src = f"Offset: 0x{b['off']:x}"
        out = [t for a, t in edges if a == src]
        if not out:
            problems.append(f"refined: block {src} has no successor")
        if b["exit"][0] in ("fall", "term") and len(out) != 1:
            problems.append(f"refined: block {src} ends by {b['exit'][0]} but has {len(out)} successors")
        elif b["exit"][0] in ("fall", "term"):
            # WHICH successor: the block that follows in the code for a fall-through (<terminate> when the code
            # ends there), <terminate> for a halting block -- in the initial graph as well
            nxt = f"Offset: 0x{b['exit'][1]:x}" if b["exit"][0] == "fall" else None
            want = nxt if (nxt is not None and nxt in byoff) else "<terminate>"
            for name, es in (("initial", dot0[1]), ("refined", edges)):
                got = [t for a, t in es if a == src]
                if got != [want]:
                    problems.append(f"{name}: block {src} ends by {b['exit'][0]}: its one mandatory successor is {want}, the graph has {got}")
    return problems


def check(run):
    rng = run.rng
    proof_ok = run.prove()
    ok, out, dt = common.build_harness(True)
    if not ok:
        run.violation_unproved("harness-build", out)
        return run.finish(trusted=TRUSTED)
    n = 400 if run.tier == "thorough" else 60
    codes = [C.gen_code(rng) for _ in range(n)]
    codes += [b"", b"\x00", b"\x5b", b"\x56", b"\x5b\x5b\x57", bytes.fromhex("600456005b00"), bytes.fromhex("60035b5600")]
    codes += [c for _, c in C.systematic_codes()] + [c for _, c in C.HARD_CODES]
    reqs = []
    for c in codes:
        h = c.hex() or "-"
        reqs += [f"annot {h}", f"cfg {h} 0", f"cfg {h} 1"]
    ans, rc, raw = common.run_harness(reqs, analyze=True, timeout=900)
    if len(ans) != len(reqs):
        run.violation_unproved("harness crashed on a batch of bytecode", raw[-2000:])
        return run.finish(trusted=TRUSTED)
    cases = []
    for i, c in enumerate(codes):
        a, d0, d1 = ans[3 * i], ans[3 * i + 1], ans[3 * i + 2]
        if not (d0.startswith("ok:") and d1.startswith("ok:")):
            cases.append(dict(code=c, crashed=(a, d0, d1)))
            continue
        blocks = C.parse_blocks(a)
        cases.append(dict(code=c, blocks=blocks, dot0=C.parse_dot(bytes.fromhex(d0[3:]).decode()), dot1=C.parse_dot(bytes.fromhex(d1[3:]).decode())))
    # model: initial graph and queries
    exprs = []
    for c in cases:
        if "blocks" in c:
            bc = C.blocks_coq(c["blocks"])
            exprs += [f"run_cfg_new {bc}", f"run_cfg_queries {bc}"]
    res, errors = common.coq_eval(C.IMPORTS, exprs, tag="c20", timeout=600)
    found = dis = 0
    k = 0
    dist = run.corr["distribution"]
    for c in cases:
        run.corr["cases"] += 1
        if "crashed" in c:
            found += 1
            if found <= 3:
                run.violation(dict(property="C20", code=c["code"].hex(), outcome=[x[:200] for x in c["crashed"]],
                                   replay=f"echo 'cfg {c['code'].hex() or '-'} 1' | .cache/target/debug/etk-vh-analyze"))
            continue
        m0, mq = res[k], res[k + 1]
        k += 2
        nb = len(c["blocks"])
        dist[f"{nb} blocks"] = dist.get(f"{nb} blocks", 0) + 1
        problems = oracle(c["blocks"], c["dot0"], c["dot1"])
        if problems:
            found += 1
            if found <= 3:
                run.violation(dict(property="C20", code=c["code"].hex(), problems=problems,
                                   replay=f"echo 'cfg {c['code'].hex() or '-'} 1' | .cache/target/debug/etk-vh-analyze"))
        mg = C.parse_model_cfg(m0)
        bad = None
        if mg is None:
            bad = f"model could not build the graph: {m0}"
        else:
            if sorted(mg[1]) != sorted(c["dot0"][1]):
                bad = f"initial edges differ: model {sorted(mg[1])} impl {sorted(c['dot0'][1])}"
            else:
                keep, items = C.solve_queries(mq or "")
                pred = sorted(e for e, kq in keep.items() if kq)
                unknown = [e for e, kq in keep.items() if kq is None]
                impl = sorted(c["dot1"][1])
                # see checks/c05.py: the implementation's solver has a 2 s wall-clock budget and keeps the edge when it
                # runs out, so only "satisfiable => kept" and "nothing outside the initial graph" are timing independent
                if not (set(pred) <= set(impl) <= set(keep.keys())):
                    bad = f"refined edges differ: edges with a satisfiable query {pred}, initial {sorted(keep.keys())}, impl {impl}"
                elif unknown:
                    run.notes.append(f"z3 gave no answer for {len(unknown)} queries of code {c['code'].hex()}")
        if bad:
            dis += 1
            if dis <= 3:
                run.log(f"DISAGREE code={c['code'].hex()}: {bad[:400]}")
                c["bad"] = bad
        if len(run.samples) < 4:
            run.samples.append(dict(code=c["code"].hex(), model_initial=(m0 or "")[:300], impl_refined_edges=[f"{a} -> {b}" for a, b in c["dot1"][1]][:10]))
    # the user-facing binary: `ecfg` (clap, InputSource, main) must print the graph the library renders
    okb, outb = e2e.build_bins(["ecfg"])
    if not okb:
        run.violation_unproved("build of the ecfg binary", outb[-2000:])
    else:
        sc = e2e.Scratch()
        try:
            sub = [c for c in cases if "dot1" in c and c["code"]][:(40 if run.tier == "thorough" else 12)]
            for i, c in enumerate(sub):
                mode = ["code", "hex", "bin"][i % 3]
                args = (["-c", "0x" + c["code"].hex()] if mode == "code" else
                        ["--hex-file", sc.file(c["code"].hex(), "hex")] if mode == "hex" else ["--bin-file", sc.file(c["code"], "bin")])
                rc_e, out_e = e2e.run_bin("ecfg", args, timeout=300)
                got = C.parse_dot(out_e) if rc_e == 0 else None
                if got is None or sorted(got[0]) != sorted(c["dot1"][0]) or sorted(got[1]) != sorted(c["dot1"][1]):
                    found += 1
                    if found <= 3:
                        run.violation(dict(property="C20", code=c["code"].hex(), via=f"ecfg binary ({mode})", rc=rc_e, problems=["ecfg does not print the graph ControlFlowGraph::render gives for the same code"],
                                           got=(out_e or "")[:600], replay=f".cache/target/debug/ecfg -c 0x{c['code'].hex()}"))
            run.corr["cases"] += len(sub)
            dist["ecfg-binary"] = len(sub)
        finally:
            sc.cleanup()
    run.corr["distinct"] = len(set(c["code"] for c in cases))
    run.corr["disagreements"] = dis
    run.corr["rule"] = ("random bytecode of 1-5 blocks (jumpdest-headed or not) ending in jump/jumpi/stop/return/revert/invalid/selfdestruct/fall-through, with constant, off-by-one, "
                        "arithmetic (incl. wrap-around), storage/calldata/memory-dependent and entry-stack jump targets and conditions, unreachable blocks, truncated trailing push; "
                        "implementation DOT (initial and refined) vs model graph and model queries answered by z3; distinct = distinct byte strings")
    if (not proof_ok or dis) and not found:
        if dis:
            c = [x for x in cases if x.get("bad")][0]
            run.violation_unproved("correspondence Model/Cfg.v vs etk-analyze cfg.rs", dict(code=c["code"].hex(), detail=c["bad"][:2000], n=dis))
        else:
            run.violation_unproved("theorems of Props/C20.v", run.proof["log"])
    return run.finish(trusted=TRUSTED)


def replay(obj):
    print(obj)
    if "replay" in obj:
        rc, out = common.sh(obj["replay"], cwd=common.VERIF)
        print(out)
    return 0
