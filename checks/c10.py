"""C10 -- instruction macros behave as hygienic textual expansion."""
import copy
from lib import asmgen as G, common
from checks import asmfam
from checks.asmfam import mk_case, answer_bytes, answer_kind, replay  # noqa: F401


# ---------------------------------------------------------------- reference expansion (python)
class ExpandError(Exception):
    def __init__(self, kind, arg=None):
        self.kind, self.arg = kind, arg


def map_expr(e, f):
    """bottom-up rewrite of an expression tree"""
    k = e[0]
    if k in ("num", "lbl", "var"):
        return f(e)
    if k == "paren":
        return f(("paren", map_expr(e[1], f)))
    if k == "macro":
        return f(("macro", e[1], [map_expr(a, f) for a in e[2]]))
    return f((k, map_expr(e[1], f), map_expr(e[2], f)))


def subst_expr(e, ren, params):
    """rename local labels, then replace parameters by the (parenthesised-as-a-tree) arguments.
    Arguments are inserted AFTER renaming, so they keep their call-site meaning."""
    k = e[0]
    if k == "lbl":
        return ("lbl", ren.get(e[1], e[1]))
    if k == "var":
        if e[1] not in params:
            return e
        a = params[e[1]]
        # the argument is inserted as an expression (a subtree): keep it grouped when printed
        return ("paren", a) if a[0] in "+-*/" else a
    if k == "num":
        return e
    if k == "paren":
        return ("paren", subst_expr(e[1], ren, params))
    if k == "macro":
        return ("macro", e[1], [subst_expr(a, ren, params) for a in e[2]])
    return (k, subst_expr(e[1], ren, params), subst_expr(e[2], ren, params))


def expand(prog):
    """The property's reference: every invocation replaced by the body with parameters replaced by the
    argument expressions and body labels renamed to names unique to that expansion."""
    imacros = {o[1]: o for o in prog if o[0] == "defi"}
    counter = [0]
    out = []

    def go(ops, depth):
        for o in ops:
            if o[0] == "macro":
                if o[1] not in imacros:
                    raise ExpandError("UndeclaredInstructionMacro", o[1])
                _, name, params, body = imacros[o[1]]
                if len(params) != len(o[2]):
                    raise ExpandError("MacroArgumentCount", name)
                if depth >= 255:
                    raise ExpandError("RecursionLimit")
                ren = {}
                for b in body:
                    if b[0] == "label":
                        if b[1] in ren:
                            raise ExpandError("DuplicateLabel", b[1])
                        counter[0] += 1
                        ren[b[1]] = f"{name}_{b[1]}_x{counter[0]}"
                pm = dict(zip(params, o[2]))
                new = []
                for b in body:
                    if b[0] == "label":
                        new.append(("label", ren[b[1]]))
                    elif b[0] == "op" and b[2] is not None:
                        new.append(("op", b[1], subst_expr(b[2], ren, pm)))
                    elif b[0] == "push":
                        new.append(("push", subst_expr(b[1], ren, pm)))
                    elif b[0] == "macro":
                        new.append(("macro", b[1], [subst_expr(a, ren, pm) for a in b[2]]))
                    else:
                        new.append(b)
                go(new, depth + 1)
            elif o[0] == "defi":
                continue
            else:
                out.append(o)

    go(prog, 0)
    return out


# ---------------------------------------------------------------- generator
def rand_operand(rng, params, local, outer):
    r = rng.random()
    atoms = []
    if params:
        atoms.append(("var", rng.choice(params)))
    if local:
        atoms.append(("lbl", rng.choice(local)))
    if outer:
        atoms.append(("lbl", rng.choice(outer)))
    atoms.append(("num", rng.choice([0, 1, 2, 5, 200])))
    a = rng.choice(atoms)
    if r < 0.35:
        return a
    if r < 0.5:
        return ("paren", a)
    if r < 0.6:
        return ("macro", "id", [a])
    b = rng.choice(atoms)
    return G.climb([a, rng.choice(["+", "+", "*"]), b])


def gen_case(rng):
    outer = ["o1", "o2"]
    defs = [("defe", "id", ["v"], ("var", "v"))]
    names = []
    nm = rng.randrange(1, 4)
    for i in range(nm):
        # parameter names occasionally coincide with local / outer label names: `$a` and `a` are different things
        params = rng.sample(["p", "q", "r", "a", "loop", "o1"] if rng.random() < 0.35 else ["p", "q", "r"], rng.randrange(0, 3))
        # local labels deliberately clash with outer labels / labels used in arguments
        local = rng.sample(["a", "o1", "loop"], rng.randrange(0, 3))
        body = []
        for l in local:
            body.append(("label", l))
            body.append(("op", "jumpdest", None))
        for _ in range(rng.randrange(1, 4)):
            c = rng.random()
            if c < 0.4:
                # a constant operand is range-checked by the parser even in a macro that is never invoked, so a
                # fixed-width push only gets a constant it can hold (compound operands reach 200*200): the
                # expansion oracle drops unused definitions and would otherwise demand more than the property says
                e = rand_operand(rng, params, local, outer)
                compound = e[0] in ("+", "-", "*", "/")
                body.append(("op", "push2" if compound else rng.choice(["push1", "push2"]), e))
            elif c < 0.65:
                body.append(("push", rand_operand(rng, params, local, outer)))
            elif c < 0.85 and names:
                callee, cparams = rng.choice(names)
                # pass-through parameters: half of the time the bare parameter, whose call-site meaning must
                # survive even when the argument is spelled like a local label of this macro
                body.append(("macro", callee, [("var", rng.choice(params)) if params and rng.random() < 0.5 else rand_operand(rng, params, local, outer)
                                               for _ in cparams]))
            else:
                body.append(("op", rng.choice(["pc", "caller", "gas"]), None))
        rng.shuffle(body) if rng.random() < 0.3 and not local else None
        defs.append(("defi", f"m{i}", params, body))
        names.append((f"m{i}", params))
    main = [("label", "o1"), ("op", "jumpdest", None)]
    for _ in range(rng.randrange(1, 4)):
        callee, cparams = rng.choice(names)
        args = [rand_operand(rng, [], [], outer + ["a"] if rng.random() < 0.3 else outer) for _ in cparams]
        if rng.random() < 0.04 and cparams:
            args = args[:-1]                   # wrong arity
        main.append(("macro", callee, args))
        if rng.random() < 0.4:
            main.append(("op", "pc", None))
    main += [("label", "o2"), ("op", "jumpdest", None), ("label", "a"), ("op", "jumpdest", None)]
    if rng.random() < 0.5:
        prog = defs + main
    else:
        prog = defs[:1] + main + defs[1:]       # definitions after their uses
    return prog


def designed():
    """pass-through arguments under a name clash: the argument keeps its call-site meaning at every level"""
    L, J = ("label", "top"), ("op", "jumpdest", None)
    inner = ("defi", "inner", ["t"], [("op", "push1", ("var", "t"))])
    innerp = ("defi", "inner", ["t"], [("push", ("var", "t"))])
    ident = ("defe", "id", ["v"], ("var", "v"))
    tail = [("label", "o2"), J]
    out = []
    for inn in (inner, innerp):
        out.append([ident, inn, ("defi", "outer", ["t"], [L, J, ("macro", "inner", [("var", "t")])]), L, J, ("macro", "outer", [("lbl", "top")])] + tail)
        out.append([ident, inn, ("defi", "outer", ["t"], [L, J, ("macro", "inner", [G.climb([("var", "t"), "+", ("lbl", "top")])])]), L, J, ("macro", "outer", [("lbl", "top")])] + tail)
        out.append([ident, inn, ("defi", "outer", ["t"], [L, J, ("macro", "inner", [("macro", "id", [("var", "t")])])]), L, J, ("macro", "outer", [("lbl", "top")])] + tail)
        out.append([ident, inn, ("defi", "mid", ["u"], [L, J, ("macro", "inner", [("var", "u")])]),
                    ("defi", "outer", ["t"], [L, J, ("macro", "mid", [("var", "t")])]), L, J, ("macro", "outer", [("lbl", "top")]), ("macro", "outer", [("lbl", "o2")])] + tail)
        out.append([ident, inn, ("defi", "outer", ["t", "u"], [L, J, ("macro", "inner", [("var", "u")]), ("macro", "inner", [("var", "t")])]),
                    L, J, ("macro", "outer", [("lbl", "o2"), ("lbl", "top")])] + tail)
        # definitions after use
        out.append([ident, L, J, ("macro", "outer", [("lbl", "top")])] + tail + [inn, ("defi", "outer", ["t"], [L, J, ("macro", "inner", [("var", "t")])])])
    # a parameter named like a local label of the same macro / like an outer label the body mentions
    pc = ("op", "pc", None)
    for pw in ("push1", "push2"):
        out.append([ident, ("defi", "m", ["top"], [L, J, ("op", pw, ("var", "top")), ("op", pw, ("lbl", "top"))]), pc, ("macro", "m", [("num", 0x42)])] + tail)
        out.append([ident, ("defi", "m", ["top"], [L, J, ("push", G.climb([("var", "top"), "+", ("lbl", "top")]))]), pc, pc, ("macro", "m", [("num", 0x42)]), ("macro", "m", [("lbl", "o2")])] + tail)
        out.append([ident, ("defi", "m", ["o2"], [("op", pw, ("var", "o2")), ("op", pw, ("lbl", "o2"))]), pc, ("macro", "m", [("num", 7)])] + tail)
        out.append([ident, ("defi", "inner", ["top"], [("op", pw, ("var", "top"))]), ("defi", "m", ["top"], [L, J, ("macro", "inner", [("lbl", "top")]), ("macro", "inner", [("var", "top")])]),
                    pc, ("macro", "m", [("num", 9)])] + tail)
    # parameters inside the arguments of an expression-macro invocation: every argument is rewritten
    w = ("defe", "w", ["h", "l", "k"], G.climb([("var", "h"), "*", ("num", 16), "+", ("var", "l"), "+", ("var", "k")]))
    for args in ([("var", "a"), ("var", "b"), ("num", 0)], [("var", "a"), ("var", "a"), ("var", "b")], [("num", 1), ("var", "a"), ("var", "b")],
                 [G.climb([("var", "a"), "+", ("num", 1)]), ("macro", "id", [("var", "b")]), ("lbl", "top")], [("var", "b"), ("num", 2), ("var", "a")]):
        for opk in ("op", "push"):
            operand = ("macro", "w", args)
            body_op = ("op", "push2", operand) if opk == "op" else ("push", operand)
            out.append([ident, w, ("defi", "both", ["a", "b"], [L, J, body_op]), ("macro", "both", [("num", 3), ("num", 4)]), ("macro", "both", [("lbl", "o2"), ("num", 1)])] + tail)
    # wrong number of arguments (too many, too few, for a macro without parameters, in a nested invocation): the
    # invocation has no expansion, so it must fail -- the same way its (non-existent) expansion "fails"
    out.append([inner, ("macro", "inner", [("num", 1), ("num", 2)])] + tail)
    out.append([inner, ("macro", "inner", [])] + tail)
    out.append([("defi", "here", [], [L, J, ("op", "push1", ("lbl", "top"))]), ("macro", "here", [("num", 7)])] + tail)
    out.append([inner, ("defi", "outer", ["a", "b"], [("macro", "inner", [("var", "a"), ("var", "b")])]), ("macro", "outer", [("num", 1), ("num", 2)])] + tail)
    out.append([inner, ("defi", "outer", ["a", "b"], [("macro", "inner", [])]), ("macro", "outer", [("num", 1), ("num", 2)])] + tail)
    # an argument that mentions a variable which nothing binds at the call site, named like a LATER parameter of the
    # callee: substitution is simultaneous, the variable must stay unbound (the invocation fails like its expansion);
    # a repeated parameter name: the last argument wins
    pair = ("defi", "pair", ["a", "b"], [("op", "push1", ("var", "a")), ("op", "push1", ("var", "b"))])
    out.append([pair, ("macro", "pair", [("var", "b"), ("num", 5)])] + tail)
    out.append([pair, ("macro", "pair", [G.climb([("var", "b"), "+", ("num", 1)]), ("num", 5)])] + tail)
    out.append([("defi", "inner2", ["a", "c"], [("op", "push1", G.climb([("var", "a"), "+", ("var", "c")]))]),
                ("defi", "outer2", ["x"], [("macro", "inner2", [G.climb([("var", "c"), "+", ("var", "x")]), ("num", 7)])]), ("macro", "outer2", [("num", 1)])] + tail)
    out.append([("defi", "inner2", ["a", "c"], [("push", G.climb([("var", "a"), "+", ("var", "c")]))]),
                ("defi", "outer2", ["c"], [("macro", "inner2", [("var", "c"), ("num", 7)])]), ("macro", "outer2", [("num", 1)])] + tail)
    out.append([("defi", "dup", ["a", "a"], [("op", "push1", ("var", "a"))]), ("macro", "dup", [("num", 1), ("num", 2)])] + tail)
    # user labels spelled like the names a macro-local label could be given (macro_label_suffix with small or
    # predictable suffixes): they are ordinary labels, never captured by / clashing with an expansion
    body = [L, J, ("op", "push1", ("lbl", "top"))]
    for suffix in ("0", "1", "2", "00", "18446744073709551615"):
        nm = f"m_top_{suffix}"
        out.append([("defi", "m", [], body), ("label", nm), J, ("macro", "m", []), ("op", "push1", ("lbl", nm))] + tail)
        out.append([("defi", "m", [], body), ("macro", "m", []), ("macro", "m", []), ("label", nm), J, ("op", "push1", ("lbl", nm))] + tail)
        out.append([("defi", "m", [], body), ("macro", "m", []), ("op", "push1", ("lbl", nm))] + tail)          # undeclared: must stay an error
        out.append([("defi", "inner", [], body), ("defi", "m", [], [("macro", "inner", []), L, J]), ("macro", "m", []), ("label", f"inner_top_{suffix}"), J,
                    ("op", "push1", ("lbl", f"inner_top_{suffix}"))] + tail)
    return out


def check(run):
    rng = run.rng
    progs = designed() + [gen_case(rng) for _ in range(2500 if run.tier == "thorough" else 700)]
    nd = len(designed())
    cases = [mk_case(p, "designed-pass-through" if i < nd else "macros") for i, p in enumerate(progs)]
    # the reference expansion of each program, assembled by the IMPLEMENTATION (oracle side)
    exp_reqs, exp_idx, exp_err = [], [], {}
    for i, p in enumerate(progs):
        try:
            ex = expand(p)        # expression-macro definitions stay where they are
            exp_reqs.append("asm " + G.prog_src(ex).encode().hex())
            exp_idx.append(i)
        except ExpandError as e:
            exp_err[i] = e.kind
    common.build_harness(False)
    exp_ans, rc, raw = common.run_harness(exp_reqs)
    expected = {}
    for i, a in zip(exp_idx, exp_ans):
        expected[i] = a
    for i, c in enumerate(cases):
        c["expected"] = expected.get(i)
        c["expand_error"] = exp_err.get(i)

    def oracle(c, ans):
        k = answer_kind(ans)
        if k in ("panic", "crash"):
            return []
        if c["expand_error"]:
            # the expansion itself is ill-formed: some error must be reported (an earlier fault may win)
            return [] if k != "ok" else [f"expansion is ill-formed ({c['expand_error']}) but the program assembled"]
        exp = c["expected"] or ""
        ke = answer_kind(exp)
        if ke == "ok" or k == "ok":
            if ans.split(" out=")[0] != exp.split(" out=")[0]:
                return [f"macro program gives {ans[:120]} but its textual expansion gives {exp[:120]}"]
        elif k != ke:
            # an operand that became a constant by substitution is rejected by the assembler, the same
            # constant written out in the expansion already by the parser: the same fault, two reporters
            too_large = {"ExpressionTooLarge", "Parse.ImmediateTooLarge"}
            if k in too_large and ke in too_large:
                return []
            return [f"macro program fails with {k} but its textual expansion fails with {ke}"]
        return []

    return asmfam.run_family(run, "C10", cases, oracle,
                             "1-3 instruction macros with 0-2 parameters, local labels clashing with outer/argument labels, operands bare / parenthesised / compound / inside an expression-macro call, %push, nested invocations forwarding parameters, repeated expansion, definitions before or after use, occasional wrong arity; oracle: implementation on the macro program vs implementation on the python-expanded macro-free program; distinct = distinct sources",
                             "instruction macro expansion")
