"""C05 -- the refined control-flow graph over-approximates every real execution.

1. proofs: Props/C05.v (top-level theorem) and Props/C05ops.v (every operation's bit-vector term);
2. correspondence of the whole pipeline: the implementation's initial graph (`cfg <code> 0`) must
   equal Model/Pipeline.v's, and its refined graph (`cfg <code> 1`) must equal the model's graph
   with the model's queries answered by z3 (python binding, child process);
   plus the cross-check of the model's terms against the real z3 terms (checks/c05ops.py);
3. search for a concrete failing execution (independent of the Coq development): a python
   interpreter of the Cancun instruction set (checks/c06.py) decodes the code, cuts it at
   JUMPDESTs and after jumping/halting instructions, executes every block on random entry stacks
   under a random but consistent world, computes where the transfer leads and looks the edge up
   in the implementation's initial and refined DOT output.
"""
import hashlib

from lib import common
from lib.common import coq_bytes
from checks import cfgcommon as C
from checks import c05ops, c06

IMPORTS = ("From Verif Require Import Model.Base Model.Sym Spec.SmtBv Model.Z3Tr Model.Cfg Model.Annot Model.Pipeline.\n"
           "Open Scope Z_scope.")

TRUSTED = [
    "Coq 8.16.1 kernel incl. vm_compute; axioms: none",
    "specification side (hand-written, trusted): Spec/EvmSem.v + Spec/EvmExec.v (block execution with an oracle for state reads; cross-checked against the python interpreter by C06), "
    "Spec/CfgSpec.v (one environment per run: `consistent`; where a transfer leads: `successor`), Spec/SmtBv.v (reading of SMT-LIB bit-vector formulas), Spec/SymEval.v",
    "hypothesis of the theorem, not proved: the solver is sound (answers Unsat only for unsatisfiable assertion sets); z3 itself is outside the model",
    "gas, the 1024-slot stack limit and other exceptional halts are not modelled: the theorem speaks of executions of a block that do not underflow; an execution cut short by them takes no edge",
    "models (hand-written, each tied to the code by its own differential check and all together by this one): Model/Disasm.v, Blocks.v, Annot.v, Z3Tr.v, Cfg.v, Pipeline.v; tools/gen_tables.py regenerates the opcode table",
    "python reference interpreter and block cutter of this check (used only to search for a failing input)",
    "harness crate etk-vh-analyze (uses the verif-hooks feature only for the term cross-check), python driver, z3 python binding for the model's queries",
]

W = 1 << 256


def known_gap():
    for f in common.load_known_findings():
        if f["pid"] == "C05" and f["cls"] == "KnownClass_C06_cancun_gap":
            return f["cls"] + " " + f["text"]
    return None


# ---------------------------------------------------------------- independent reading of the code
# ---------------------------------------------------------------- from a term disagreement to an execution
OPCODE = {v[0]: k for k, v in c06.PURE.items()}


def witness_program(tree, model_text):
    """The term cross-check found operand values (z3 model) for which the implementation's term and the
    model's term differ.  For a pure expression, build the program that computes it on those values and
    jumps to a jumpdest exactly when the EVM result comes out: (code, expected value) or None."""
    vals = {}
    for part in (model_text or "").split(", "):
        name, _, v = part.partition("=")
        if name.startswith("etk_var") and v.strip().lstrip("-").isdigit():
            vals[int(name[7:])] = int(v) % W

    def ev(e):
        if e[0] == "var":
            return vals.get(e[1], 0)
        if e[0] == "c":
            return e[1] % W
        if e[0] == "pc":
            raise KeyError
        return c06.PURE_BY_NAME[e[0]][2](*[ev(a) for a in e[1]])

    def code(e):
        if e[0] in ("var", "c"):
            return C.push(ev(e), 32)
        return b"".join(code(a) for a in reversed(e[1])) + bytes([OPCODE[e[0]]])

    try:
        value = ev(tree)
        return jump_via(code(tree), value), value
    except (KeyError, IndexError, TypeError):
        return None


def decode(code):
    """-> list of (offset, byte, imm) of the complete instructions"""
    out, off = [], 0
    while off < len(code):
        b = code[off]
        n = c06.imm_len(b)
        if off + 1 + n > len(code):
            break                       # truncated push: never executed as an instruction by etk
        out.append((off, b, list(code[off + 1:off + 1 + n])))
        off += 1 + n
    return out


def cut(ins, evm=False):
    """basic blocks: a JUMPDEST starts one, a jumping/halting instruction ends one.
    evm=False: as etk must cut them (bytes missing from its table end a block too)."""
    blocks, cur = [], []
    for it in ins:
        off, b, imm = it
        if b == 0x5B and cur:
            blocks.append(cur)
            cur = []
        cur.append(it)
        if c06.etk_terminator(b):
            blocks.append(cur)
            cur = []
    if cur:
        blocks.append(cur)
    return blocks


def label(off):
    return f"Offset: 0x{off:x}"


FIXED_PER_RUN = {"Address", "Origin", "Caller", "CallValue", "CallDataSize", "CodeSize", "GasPrice", "Coinbase", "Timestamp",
                 "Number", "Difficulty", "GasLimit", "ChainId", "BaseFee", "CallDataLoad", "BlockHash"}


def world(salt):
    """a world consistent with ONE environment and calldata: environment words are constants and
    calldataload/blockhash functions of their operand; everything else (storage, memory, balances, gas,
    call results, keccak of memory) may answer differently at every instruction -- in half of the worlds it
    does (a store or a call between two reads), in the other half it happens not to"""
    rc = c06.content_oracle(salt)
    varying = bool(salt & 1)

    def rho(idx, name, args):
        if name in FIXED_PER_RUN or not varying:
            return rc(name, args)
        return rc(name + "@" + str(idx), args)
    return rho


def interesting_word(rng, heads):
    r = rng.random()
    if r < 0.45 and heads:
        return rng.choice(heads)
    if r < 0.55 and heads:
        return (rng.choice(heads) + rng.choice([1, -1, 1 << 16, 1 << 64, 1 << 255])) % W
    return c06.rand_word(rng)


def search(run, code, dot0, dot1, tries):
    """returns (executions, list of problems, gap_blocks_failed)"""
    rng = run.rng
    ins = decode(code)
    blocks = cut(ins)
    heads = [b[0][0] for b in blocks]
    jds = {b[0][0] for b in blocks if b[0][1] == 0x5B}
    problems, gap_failed, execs = [], 0, 0
    labels0, edges0 = dot0
    labels1, edges1 = dot1
    want = sorted(["<terminate>", "<bad-jump>"] + [label(h) for h in heads])
    if sorted(labels1) != want or sorted(labels0) != want:
        problems.append(dict(kind="nodes", detail=f"graph nodes {sorted(labels1)} are not the basic blocks of the code {want}"))
        return execs, problems, gap_failed
    e0, e1 = set(edges0), set(edges1)
    for blk in blocks:
        off = blk[0][0]
        bins = [(b, imm) for _, b, imm in blk]
        gap = any(b in c06.CANCUN_GAP for b, _ in bins)
        for _ in range(tries):
            rho = world(rng.getrandbits(32))
            deep = [interesting_word(rng, heads) for _ in range(len(bins) * 17 + 4)]
            try:
                _, _, _, deepest = c06.py_exec(off, bins, deep, rho)
            except c06.Underflow:
                continue
            stack = deep[:deepest + rng.choice([0, 0, 2])]
            final, tr, trace, _ = c06.py_exec(off, bins, stack, rho)
            execs += 1
            # where does it lead?
            if gap:
                # real Cancun semantics of the whole run of instructions up to the next real terminator
                pass
            if tr[0] == "halt":
                succ = "<terminate>"
            elif tr[0] == "fall":
                succ = label(tr[1]) if tr[1] in heads else "<terminate>"
            elif tr[0] == "goto":
                succ = label(tr[1]) if tr[1] in jds else "<bad-jump>"
            else:
                _, c, t, f = tr
                if c == 0:
                    succ = label(f) if f in heads else "<terminate>"
                else:
                    succ = label(t) if t in jds else "<bad-jump>"
            edge = (label(off), succ)
            missing = [n for n, es in (("initial", e0), ("refined", e1)) if edge not in es]
            if missing:
                if gap:
                    gap_failed += 1
                    continue
                problems.append(dict(kind="edge", block_offset=off, block=[bytes([b] + imm).hex() for b, imm in bins],
                                     entry_stack=[hex(x) for x in stack], reads=[(i, hex(b), [hex(a) for a in args]) for i, b, args in trace],
                                     transfer=[tr[0]] + [hex(x) for x in tr[1:]], edge=f"{edge[0]} -> {edge[1]}", missing_in=missing,
                                     edges_from_block=sorted(f"{a} -> {b}" for a, b in e1 if a == label(off))))
                break
    return execs, problems, gap_failed


def gap_semantics_blocks(code):
    """does the code contain one of the Cancun bytes missing from etk's table as an instruction?"""
    return any(b in c06.CANCUN_GAP for _, b, _ in decode(code))


def jump_via(body, expected):
    """body leaves `expected` on the stack; push32 (tgt - expected); add; jump; stop; jumpdest; stop --
    the jump goes to the jumpdest exactly when the operation has its EVM value"""
    tgt = len(body) + 33 + 1 + 1 + 1
    return body + C.push((tgt - expected) % W, 32) + b"\x01\x56\x00\x5b\x00"


def designed_codes():
    h = bytes.fromhex
    MAX = W - 1
    p32 = lambda v: C.push(v % W, 32)          # noqa: E731
    hits = [
        # (name, body, value the EVM computes)
        ("hit-sub-wrap", p32(1 << 255) + p32((1 << 255) + 5) + h("03"), 5),
        ("hit-add-wrap", p32(MAX) + p32(7) + h("01"), 6),
        ("hit-mul-wrap", p32(1 << 255) + p32(6) + h("02"), 0),
        ("hit-div-zero", p32(0) + p32(9) + h("04"), 0),
        ("hit-sdiv-min", p32(MAX) + p32(1 << 255) + h("05"), 1 << 255),
        ("hit-sdiv-neg", p32(2) + p32(W - 7) + h("05"), W - 3),
        ("hit-mod-zero", p32(0) + p32(9) + h("06"), 0),
        ("hit-smod-neg-dividend", p32(3) + p32(W - 8) + h("07"), W - 2),
        ("hit-smod-neg-divisor", p32(W - 3) + p32(8) + h("07"), 2),
        ("hit-addmod-wide", p32(MAX) + p32(MAX) + p32(MAX) + h("08"), 0),
        ("hit-addmod-wide2", p32(MAX - 1) + p32(MAX) + p32(MAX) + h("08"), 2),
        ("hit-mulmod-wide", p32(MAX) + p32(2) + p32(1 << 255) + h("09"), 1),
        ("hit-mulmod-wide2", p32(MAX - 1) + p32(MAX) + p32(MAX) + h("09"), 1),
        ("hit-exp-literal", C.push(3) + C.push(2) + h("0a"), 8),
        ("hit-exp-wrap", C.push(2) + p32(1 << 255) + h("0a"), 0),
        ("hit-exp-zero-zero", C.push(0) + C.push(0) + h("0a"), 1),
        ("hit-exp-big-literal", C.push(255) + C.push(2) + h("0a"), 1 << 255),
        ("hit-signextend-neg", C.push(0x80) + C.push(0) + h("0b"), W - 0x80),
        ("hit-signextend-pos", C.push(0x7F) + C.push(0) + h("0b"), 0x7F),
        ("hit-signextend-31", p32(1 << 255) + C.push(31) + h("0b"), 1 << 255),
        ("hit-signextend-huge", p32(0x80) + p32(1 << 200) + h("0b"), 0x80),
        ("hit-lt", p32(MAX) + C.push(1) + h("10"), 1),
        ("hit-slt", C.push(1) + p32(MAX) + h("12"), 1),
        ("hit-sgt", p32(MAX) + C.push(1) + h("13"), 1),
        ("hit-byte-huge-index", p32(0xAB) + p32(1 << 253) + h("1a"), 0),
        ("hit-byte-31", p32(0xABCD) + C.push(31) + h("1a"), 0xCD),
        ("hit-byte-32", p32(MAX) + C.push(32) + h("1a"), 0),
        ("hit-shl-255", C.push(3) + C.push(255) + h("1b"), 1 << 255),
        ("hit-shl-256", C.push(1) + C.push(256, 2) + h("1b"), 0),
        ("hit-shr-256", p32(MAX) + C.push(256, 2) + h("1c"), 0),
        ("hit-shr-huge", p32(MAX) + p32(1 << 200) + h("1c"), 0),
        ("hit-sar-neg", p32(W - 8) + C.push(1) + h("1d"), W - 4),
        ("hit-sar-neg-256", p32(W - 8) + C.push(256, 2) + h("1d"), MAX),
        ("hit-sar-pos-huge", p32(8) + p32(MAX) + h("1d"), 0),
        ("hit-not", C.push(0) + h("19"), MAX),
        ("hit-iszero", C.push(0) + h("15"), 1),
        ("hit-pc", h("58"), 0),
        ("hit-dup-read", h("5a") + h("80") + h("03"), 0),                                   # gas - (the same) gas
        ("hit-env-twice", h("33") + h("33") + h("03"), 0),                                  # caller - caller
        ("hit-calldataload-twice", C.push(4) + h("35") + C.push(4) + h("35") + h("03"), 0),
        ("hit-blockhash-twice", C.push(4) + h("40") + C.push(4) + h("40") + h("03"), 0),
    ]
    out = [(k, jump_via(body, v)) for k, body, v in hits]
    # two reads of the same location in one block may differ (a store, a call or simply gas in between):
    # both outcomes of comparing them are executions, both edges must survive
    for name, rd in (("sload", h("54")), ("mload", h("51")), ("balance", h("31")), ("extcodesize", h("3b")), ("extcodehash", h("3f")),
                     ("tail-keccak", C.push(32) + h("20"))):
        first = C.push(0) + rd if name != "tail-keccak" else C.push(0) + rd
        between = C.push(1) + C.push(0) + (h("55") if name == "sload" else h("52"))
        body = first + between + first + h("14")
        a = body + C.push(len(body) + 2 + 1 + 1, 1) + h("57") + h("00") + h("5b00")
        out.append((f"reads-differ-{name}", a))
    for name, rd in (("gas", h("5a")), ("msize", h("59")), ("selfbalance", h("47")), ("returndatasize", h("3d"))):
        body = rd + rd + h("14")
        out.append((f"reads-differ-{name}", body + C.push(len(body) + 2 + 1 + 1, 1) + h("57") + h("00") + h("5b00")))
    # exp with a literal base and an exponent the block does not know: the result is a value the solver must
    # leave open (only its EVM value decides the transfer) -- the exponent is shaped so that huge exponents
    # (products/masks that wrap) are what distinguishes the edges
    srcs = (("callvalue", h("34")), ("calldata", C.push(0) + h("35")), ("entry", b""))
    shapes = (("plain", b""), ("top3", p32(0xE0 << 248) + h("16")), ("top1", p32(1 << 255) + h("16")), ("times-2^254", p32(1 << 254) + h("02")),
              ("low8", C.push(0xFF) + h("16")))
    for base in (2, 4, 256, 1 << 63, 3):
        for sn, src in srcs:
            for hn, shape in shapes:
                if (base in (2, 1 << 63, 3)) and sn == "calldata":
                    continue
                body = src + shape + C.push(base) + h("0a")
                tgt = len(body) + 1 + 2 + 1 + 1
                out.append((f"exp-open-exponent-{hn}", body + h("15") + C.push(tgt, 1) + h("57") + h("00") + h("5b00")))
                if hn in ("top3", "top1", "plain"):
                    out.append((f"exp-open-exponent-{hn}", jump_via(body, 1)))
    out += [
        ("miss-sub", C.push(1 << 255, 32) + C.push(((1 << 255) + 5) % W, 32) + b"\x03\x56" + b"\x5b\x00"),
        ("exp-symbolic", h("34") + C.push(2) + h("0a") + h("56") + h("5b00")),
        ("entry-target", h("56") + h("5b00") + h("5b00")),
        ("entry-cond", C.push(4) + h("57") + h("00") + h("5b00")),
        ("calldata-target", C.push(0) + h("35") + h("56") + h("5b00") + h("5b00")),
        ("two-reads", jump_via(h("5a") + h("5a") + h("03"), 0)),                                      # gas - gas': anything
        ("calldataload-differ", jump_via(C.push(4) + h("35") + C.push(5) + h("35") + h("03"), 0)),
        ("off-the-end", C.push(1) + h("50")),
        ("truncated-push", h("5b") + h("61ff")),
        ("push-data-jumpdest", C.push(2) + h("56") + h("605b") + h("00")),                            # 0x5b inside push data is not a destination
        ("branch-both", h("34") + C.push(6) + h("57") + h("00") + h("5b00")),
        ("branch-const-false", C.push(0) + C.push(7) + h("57") + h("00") + h("5b00")),
        ("branch-to-fallthrough", h("34") + C.push(4) + h("57") + h("5b00")),
    ]
    return out


def check(run):
    rng = run.rng
    proof_ok = run.prove()
    # the per-operation theorems
    ok2, log2, dt2 = common.coq_prop("C05ops")
    ops_blocks = common.parse_assumptions(log2) if ok2 else []
    if not ok2 or not ops_blocks or any(b != "closed" for b in ops_blocks):
        proof_ok = False
        run.proof["ok"] = False
        run.proof["log"] += "\nProps/C05ops.v: " + (log2[-1500:] if not ok2 else "axioms: " + str(ops_blocks))
        run.log("PROOF BROKEN: Props/C05ops.v")
    else:
        run.notes.append(f"Props/C05ops.v: {len(ops_blocks)} theorems, all closed under the global context")
    ok, out, dt = common.build_harness(True)
    if not ok:
        run.violation_unproved("harness-build", out)
        return run.finish(trusted=TRUSTED)

    # ---- term cross-check (model terms vs the real z3 terms)
    witness_cases = []
    try:
        dis_list, det = c05ops.run_ops(run)
        ops_cases, ops_dis = det.get("cases", 0), len(dis_list)
        ops_detail = [{k: d.get(k) for k in ("cat", "expr", "verdict", "detail", "impl_term", "model_term")} for d in dis_list[:3]]
        for d in dis_list[:3]:
            run.log(f"TERM DISAGREE {d.get('expr', '')[:120]}: {d.get('verdict')} {str(d.get('detail'))[:200]}")
        for d in dis_list:
            if d.get("verdict") == "sat" and d.get("tree") is not None and len(witness_cases) < 12:
                w = witness_program(d["tree"], d.get("detail"))
                if w:
                    witness_cases.append(("term-witness", w[0]))
    except Exception as e:      # noqa: BLE001
        ops_cases, ops_dis, ops_detail = 0, 1, f"cross-check crashed: {e!r}"
    run.corr["cases"] += ops_cases
    run.corr["distribution"]["term cross-check"] = ops_cases

    # ---- whole-pipeline correspondence + search
    n = 300 if run.tier == "thorough" else 50
    cases = [(k, c) for k, c in designed_codes()]
    cases += C.systematic_codes() + C.HARD_CODES
    cases += C.literal_operand_codes(None if run.tier == "thorough" else [0x0B, 0x1A, 0x1B, 0x1C, 0x1D, 0x0A, 0x05, 0x07])
    cases += [("structured", C.gen_code(rng)) for _ in range(n)]
    pos = C.opcode_position_codes()
    step = 1 if run.tier == "thorough" else 9
    cases += [(k, c) for i, (k, b, c) in enumerate(pos) if (k in ("target", "condition", "entry-stack", "middle-operand") and i % step == 0) or (k == "second-operand" and i % 3 == 0)]
    cases.append(("cancun-gap", bytes.fromhex("60005c00")))
    cases += witness_cases          # programs built from the operand values on which a term differs
    reqs = []
    for _, c in cases:
        h = c.hex() or "-"
        reqs += [f"cfg {h} 0", f"cfg {h} 1"]
    ans, complete = common.run_harness_parallel(reqs, analyze=True, timeout=900, nproc=14)
    exprs = []
    for _, c in cases:
        exprs += [f"run_pipeline_initial {coq_bytes(list(c))}", f"run_pipeline_queries {coq_bytes(list(c))}"]
    model, errors = common.coq_eval(IMPORTS, exprs, tag="c05", timeout=900)
    dis = found = gap_seen = extra_kept = 0
    bad_case = None
    execs_total = 0
    dist = run.corr["distribution"]
    known = known_gap()
    tries = 12 if run.tier == "thorough" else 5
    for i, (k, c) in enumerate(cases):
        run.corr["cases"] += 1
        dist[k] = dist.get(k, 0) + 1
        d0, d1 = ans[2 * i], ans[2 * i + 1]
        m0, mq = model[2 * i], model[2 * i + 1]
        if not (d0 and d1 and d0.startswith("ok:") and d1.startswith("ok:")):
            # a panic of the pipeline is C15's subject; here nothing can be compared
            run.notes.append(f"pipeline gave no graph for {c.hex()}: {(d1 or '')[:80]}")
            continue
        dot0 = C.parse_dot(bytes.fromhex(d0[3:]).decode())
        dot1 = C.parse_dot(bytes.fromhex(d1[3:]).decode())
        # correspondence
        mg = C.parse_model_cfg(m0)
        bad = None
        if mg is None:
            bad = f"model pipeline: {m0}"
        elif sorted(mg[1]) != sorted(dot0[1]) or sorted(["<terminate>", "<bad-jump>"] + mg[0]) != sorted(dot0[0]):
            bad = f"initial graph differs: model {sorted(mg[1])} impl {sorted(dot0[1])}"
        else:
            keep, items = C.solve_queries(mq or "")
            unknown = [e for e, kq in keep.items() if kq is None]
            pred = sorted(e for e, kq in keep.items() if kq)
            # The implementation keeps an edge whenever ITS solver gives no answer within its 2 s budget (wall
            # clock: load dependent), so an edge that z3 refutes here may legitimately survive there.  What must
            # hold whatever the timing: every edge whose query is satisfiable is kept, nothing outside the initial
            # graph appears.  Edges kept although refutable are counted in the evidence, never an alarm.
            lo = set(pred)
            hi = set(keep.keys())
            got = set(dot1[1])
            if not (lo <= got <= hi):
                bad = f"refined graph differs: edges with a satisfiable query {pred}, initial edges {sorted(hi)}, impl {sorted(got)}"
            else:
                extra_kept += len(got - lo - set(unknown))
        if bad:
            dis += 1
            bad_case = bad_case or dict(code=c.hex(), detail=bad[:1500])
            if dis <= 3:
                run.log(f"DISAGREE code={c.hex()}: {bad[:300]}")
        # search for a failing execution
        ex, problems, gap_failed = search(run, c, dot0, dot1, tries)
        execs_total += ex
        if gap_failed:
            gap_seen += gap_failed
            if known:
                run.known_finding(known)
            else:
                problems.append(dict(kind="edge", detail="a block with a Cancun opcode missing from the table loses its real successor", code=c.hex()))
        if problems:
            found += 1
            if found <= 3:
                p = problems[0]
                p.update(property="C05", code=c.hex(), replay=f"echo 'cfg {c.hex() or '-'} 1' | .cache/target/debug/etk-vh-analyze")
                run.violation(p)
        if len(run.samples) < 4:
            run.samples.append(dict(code=c.hex(), kind=k, impl_refined_edges=[f"{a} -> {b}" for a, b in dot1[1]][:8], executions=ex))
    dis_total = dis + ops_dis
    run.corr["distinct"] = len(set(c for _, c in cases))
    run.corr["disagreements"] = dis_total
    run.corr["rule"] = ("designed programs whose jump target needs 256-bit wrap-around, wide addmod/mulmod, mixed-sign smod, byte index >= 32, shift >= 256, sar, signextend, exp (literal and symbolic; literal base with an open exponent masked to its top bits or multiplied by 2^254), "
                        "entry-stack targets/conditions, repeated reads (dup of one read vs two reads), repeated environment words and calldataloads, running off the end, truncated push, 0x5b in push data; "
                        "random structured programs; every opcode feeding a jump target / a branch condition / taken from the entry stack; "
                        "implementation initial and refined DOT vs Model/Pipeline.v (+ z3 on the model's queries); model terms vs real z3 terms; distinct = distinct byte strings")
    run.notes.append(f"{extra_kept} edges survive in the implementation although z3 (python binding, 6 s) refutes their query: its own solver gave up within its 2 s budget")
    run.notes.append(f"failing-execution search: {execs_total} block executions of the python reference interpreter looked up in the implementation's graphs; "
                     f"{gap_seen} executions of blocks with a Cancun opcode missing from the table lost their edge (known finding)")
    if (not proof_ok or dis_total) and not found:
        if ops_dis:
            run.violation_unproved("correspondence Model/Z3Tr.v vs the real z3 terms (checks/c05ops.py)", ops_detail)
        elif dis:
            run.violation_unproved("correspondence Model/Pipeline.v vs the implementation's graphs", bad_case)
        else:
            run.violation_unproved("theorems of Props/C05.v / Props/C05ops.v", run.proof["log"])
    return run.finish(trusted=TRUSTED)


def replay(obj):
    print({k: v for k, v in obj.items() if k != "replay"})
    if "replay" in obj:
        rc, out = common.sh(obj["replay"], cwd=common.VERIF)
        if out.startswith("R ok:"):
            print(bytes.fromhex(out.strip()[5:]).decode())
        else:
            print(out[:2000])
    return 0
