"""C03 -- a disassembly listing re-assembles to the original bytes."""
import os
import resource
import tomllib

from lib import common, e2e
from lib.common import coq_bytes

IMPORTS = ("From Verif Require Import Model.Base Model.Ops Model.Disasm Model.Listing.\n"
           "Definition tab : string := String (Ascii.ascii_of_N 9) EmptyString.")

TRUSTED = [
    "Coq 8.16.1 kernel incl. vm_compute; axioms: none",
    "tools/gen_tables.py: Cancun table from the TOML, alternatives of `op`/`word_size`/`half_word_size` from asm.pest, "
    "and the pinned shapes of `stmt`, `push`, `hex` (regenerated on every run)",
    "Model/Listing.v is a hand-written model of the part of etk-asm a listing exercises (pest PEG semantics of "
    "push|op, parse_push, parse_radix_str, Concretize) restricted to lines over [A-Za-z0-9_ \\t] with hex operands; "
    "anything else is answered `Unmodelled`. The reading of asm.pest that label_definition needs ':' and "
    "builtin/local_macro need '%' is by inspection. `program`/`inner` are modelled line by line. Tied to the code "
    "by the differential check (all opcodes, all widths, random strings, mutated lines)",
    "Model/Disasm.v (C04) for the disassembler side",
    "harness crate etk-vh (renders `mnemonic[ 0x<hex>]\\n` per instruction) and python driver; python reference "
    "decoder used only for the counter-example search",
]


def load_table():
    t = tomllib.load(open(os.path.join(common.REPO, "etk-ops", "src", "cancun.toml"), "rb"))
    return {v["code"]: (v["mnemonic"], v.get("extra_len", 0)) for v in t.values()}


def imm_len(b):
    """EVM rule, independent of the table."""
    return b - 0x5F if 0x60 <= b <= 0x7F else 0


def py_decode(bs):
    items, off = [], 0
    while off < len(bs):
        n = 1 + imm_len(bs[off])
        if off + n > len(bs):
            break
        items.append((off, bs[off], bytes(bs[off + 1:off + n])))
        off += n
    return items, bytes(bs[off:])


SHAPES = ["zero", "lead0", "ff", "random", "one", "top"]


def immediate(rng, n, shape):
    if shape == "zero":
        return [0] * n
    if shape == "ff":
        return [0xFF] * n
    if shape == "one":
        return [0] * (n - 1) + [1]
    if shape == "top":
        return [0x80] + [0] * (n - 1)
    if shape == "lead0":
        k = rng.randrange(1, n) if n > 1 else 1
        rest = [rng.randrange(256) for _ in range(n - k)]
        if rest and rest[0] == 0:
            rest[0] = rng.randrange(1, 256)
        return [0] * k + rest
    return [rng.randrange(256) for _ in range(n)]


def rand_instr(rng, plain):
    r = rng.random()
    if r < 0.45:
        n = rng.randrange(1, 33)
        return [0x5F + n] + immediate(rng, n, rng.choice(SHAPES))
    return [rng.choice(plain)]


def rand_code(rng, plain, n):
    out = []
    for _ in range(n):
        out += rand_instr(rng, plain)
    return out


def listing_case(bs, cat):
    h = bytes(bs).hex() if bs else "-"
    return dict(req=f"dis_listing {h}", coq=f"run_listing {coq_bytes(bs)}", cat=cat, bs=list(bs))


def coq_line(s):
    """Gallina string for a line that may contain tabs."""
    parts = s.split("\t")
    out = common.coq_str(parts[-1])
    for p in reversed(parts[:-1]):
        out = f"(String.append {common.coq_str(p)} (String.append tab {out}))"
    return out


def lines_case(lines, cat):
    text = "".join(l + "\n" for l in lines)
    return dict(req="listing_asm " + (text.encode().hex() if text else "-"),
                coq="run_listing_asm [" + "; ".join(coq_line(l) for l in lines) + "]", cat=cat, lines=lines)


def mutated_line(rng, table):
    """Lines inside the alphabet [A-Za-z0-9_ \\t] around the shapes a listing has."""
    mnems = [m for m, _ in table.values()]
    kind = rng.random()
    if kind < 0.35:
        m = rng.choice(mnems + ["invalid_0c", "swap0", "swap17", "dup0", "dup17", "dup10", "log5", "push", "push0"])
        if m.startswith("push") and m[4:].isdigit() and m != "push0":
            m = rng.choice(["mstore8", "jumpi", "callcode", "create2", "addmod", "origin"])
        mut = rng.choice(["none", "none", "append", "drop", "pre", "post", "both", "digit"])
        if mut == "append":
            m += rng.choice("i8x_0s2")
        elif mut == "drop":
            m = m[:-1]
        elif mut == "pre":
            m = rng.choice([" ", "  ", "\t"]) + m
        elif mut == "post":
            m = m + rng.choice([" ", "  ", "\t", " \t "])
        elif mut == "both":
            m = " " + m + " "
        elif mut == "digit":
            m = m.rstrip("0123456789") + str(rng.randrange(0, 20))
        return m
    if kind < 0.9:
        n = rng.choice(list(range(0, 36)) + [1, 2, 3, 9, 10, 19, 20, 29, 30, 31, 32, 33, 40, 100])
        width = n if 1 <= n <= 32 else rng.randrange(1, 4)
        nd = rng.choice([2 * width] * 6 + [0, 1, 2, 3, 2 * width - 1, 2 * width + 1, 2 * width + 2, 2 * width + 4, 70])
        digits = "".join(rng.choice("0123456789abcdef") for _ in range(nd))
        z = rng.random()
        if z < 0.25:
            digits = "0" * nd
        elif z < 0.5 and nd > 2:
            k = rng.randrange(1, nd)
            digits = "0" * k + digits[k:]
        elif z < 0.6:
            digits = digits.upper()
        elif z < 0.7 and nd > 2 * width:
            digits = "0" * (nd - 2 * width) + digits[nd - 2 * width:]   # longer literal, value fits
        sep = rng.choice([" "] * 8 + ["\t", "  ", "", " \t"])
        pre = rng.choice([""] * 6 + [" ", "\t"])
        post = rng.choice([""] * 6 + [" ", "\t ", " 0x00", "g", "_"])
        lit = rng.choice(["0x"] * 9 + ["0X", "x", "0x0x"])
        return f"{pre}push{n}{sep}{lit}{digits}{post}"
    if kind < 0.95:
        return rng.choice(["", " ", "\t", "  \t"])
    return "".join(rng.choice("abcdefpushx0123456789_ ") for _ in range(rng.randrange(1, 10)))


def oracle(impl_answer, bs, table):
    """The property itself on the implementation's answer (independent of the Coq model):
    complete, defined-only input -> `ok:` with the same bytes, offsets = prefix sums, finish ok.
    For an input with a truncated tail the same is required of its complete prefix (that is the
    byte string the listing describes), with finish reporting the leftover."""
    items, left = py_decode(bs)
    if not all(c in table for _, c, _ in items):
        return []                       # outside the property (C03_scope)
    fields = impl_answer.split(" ")
    got = {}
    for f in fields[:2]:
        k, _, v = f.partition("=")
        got[k] = v
    res = fields[2] if len(fields) > 2 else ""
    problems = []
    want_fin = "0" if left else "1"
    if got.get("fin") != want_fin:
        problems.append(f"finish: got fin={got.get('fin')}, expected {want_fin}")
    want_offs = ",".join(str(o) for o, _, _ in items) if items else "-"
    if got.get("offs") != want_offs:
        problems.append(f"offsets are not the prefix sums: got {got.get('offs')[:80]} expected {want_offs[:80]}")
    prefix = bytes(bs[:len(bs) - len(left)])
    want_res = "ok:" + (prefix.hex() if prefix else "-")
    if res != want_res:
        problems.append(f"re-assembled listing differs: got {res[:120]} expected {want_res[:120]}")
    return problems


def binaries_round_trip(run, rng, table, plain):
    """The property through the real tools: bytes -> `disease` (clap options, InputSource, Separator,
    DisplayOp, Offset) -> listing text -> `eas` (Ingest, HexWrite) -> hex.  Returns the number of
    violations recorded.  In this sandbox the etk-4byte database is an emptied file, so `disease` panics
    as soon as it prints a push (DisplayOp looks every immediate up): codes with pushes are tried once
    and skipped if that is what happens."""
    ok, out = e2e.build_bins(["disease", "eas"])
    if not ok:
        run.violation_unproved("build of the disease/eas binaries", out[-2000:])
        return 0
    sc = e2e.Scratch()
    found = tried = 0
    try:
        rc, out = e2e.disease(sc, bytes([0x60, 0x01]), "code")
        pushes_ok = rc == 0
        if not pushes_ok:
            run.notes.append("disease cannot print push instructions in this sandbox (etk-4byte database emptied: "
                             + next((l.strip() for l in out.splitlines() if "panicked" in l or "Err" in l), out.strip()[-120:])[:160]
                             + "); end-to-end round trip restricted to push-free code")
        n = 120 if run.tier == "thorough" else 30
        for i in range(n):
            if pushes_ok and i % 2:
                code = bytes(rand_code(rng, plain, rng.choice([1, 3, 10, 60])))
            else:
                code = bytes(rng.choice(plain) for _ in range(rng.choice([1, 2, 5, 17, 64, 300])))
            mode = ["code", "hex", "bin"][i % 3]
            rc, text = e2e.disease(sc, code, mode)
            tried += 1
            problems = []
            items = e2e.parse_listing(text) if rc == 0 else None
            if items is None:
                problems.append(f"disease ({mode}) failed or printed an unreadable listing: rc={rc} {text[-300:]!r}")
            else:
                want, _ = py_decode(list(code))
                if [o for o, _, _ in items] != [o for o, _, _ in want]:
                    problems.append(f"offsets {[o for o, _, _ in items][:20]} are not the prefix sums {[o for o, _, _ in want][:20]}")
                src = "".join(m + (" " + imm if imm else "") + "\n" for _, m, imm in items)
                rc2, hexout = e2e.eas(sc, src, to_file=(i % 4 == 0))
                got = hexout.strip()
                if rc2 != 0 or got != code.hex():
                    problems.append(f"eas gives {got[:120]!r} (rc={rc2}) for the listing of {code.hex()[:120]}")
            if problems:
                found += 1
                if found <= 2:
                    run.violation(dict(property="C03", input_hex=code.hex(), via="disease/eas binaries", mode=mode, problems=problems,
                                       replay=f".cache/target/debug/disease -c 0x{code.hex()}"))
    finally:
        sc.cleanup()
    run.corr["cases"] += tried
    run.corr["distribution"]["binaries-round-trip"] = tried
    return found


def raise_stack_limit():
    """coqc prints the evaluated answer with a recursive printer: an answer of ~30k characters
    (a few hundred instructions) overflows the default 8 MiB stack.  Children inherit the limit."""
    soft, hard = resource.getrlimit(resource.RLIMIT_STACK)
    want = 1 << 30
    if hard != resource.RLIM_INFINITY:
        want = min(want, hard)
    if soft == resource.RLIM_INFINITY or soft >= want:
        return
    resource.setrlimit(resource.RLIMIT_STACK, (want, hard))


def check(run):
    rng = run.rng
    raise_stack_limit()
    proof_ok = run.prove()
    ok, out, dt = common.build_harness(False)
    if not ok:
        run.violation_unproved("harness-build", out)
        return run.finish(trusted=TRUSTED)
    table = load_table()
    plain = sorted(c for c, (_, e) in table.items() if e == 0)
    undefined = [c for c in range(256) if c not in table]
    thorough = run.tier == "thorough"
    cases = []
    # 1. every defined opcode alone
    for c in sorted(table):
        e = table[c][1]
        cases.append(listing_case([c] + [rng.randrange(256) for _ in range(e)], "single-opcode"))
    # 2. every push width x every immediate shape
    for n in range(1, 33):
        for sh in SHAPES:
            for _ in range(4 if thorough else 1):
                cases.append(listing_case([0x5F + n] + immediate(rng, n, sh), f"width-{sh}"))
    # 3. random complete, defined-only instruction strings
    lens = [2, 3, 5, 8, 13, 20, 50, 100, 200, 400]
    nrand = 400 if thorough else 60
    for i in range(nrand):
        n = lens[i % len(lens)]
        if thorough and i % 40 == 0:
            n = 1500
        cases.append(listing_case(rand_code(rng, plain, n), "random-defined"))
    # long inputs: more than 4 KiB and more than 8 KiB of instructions (buffer management in the disassembler)
    for n in ((1400, 3000) if not thorough else (1400, 3000, 9000)):
        cases.append(listing_case(rand_code(rng, plain, n), "long-defined"))
    cases.append(listing_case([], "empty"))
    # 4. undefined opcodes, truncated tails, raw bytes
    for i in range(200 if thorough else 50):
        bs = rand_code(rng, plain, rng.choice([0, 1, 3, 10, 40]))
        k = rng.randrange(1, 33)
        bs += [0x5F + k] + [rng.randrange(256) for _ in range(rng.randrange(0, k))]
        cases.append(listing_case(bs, "truncated-tail"))
    for c in undefined:
        cases.append(listing_case([c], "single-undefined"))
    for i in range(150 if thorough else 40):
        bs = rand_code(rng, plain, rng.choice([0, 1, 3, 10, 40]))
        pos = rng.randrange(0, len(bs) + 1) if i % 2 else len(bs)
        if i % 2:      # keep instruction boundaries: insert between whole instructions
            items, _ = py_decode(bs)
            pos = rng.choice([o for o, _, _ in items] + [len(bs)])
        bs = bs[:pos] + [rng.choice(undefined)] + bs[pos:]
        cases.append(listing_case(bs, "with-undefined"))
    for i in range(100 if thorough else 30):
        cases.append(listing_case([rng.randrange(256) for _ in range(rng.randrange(1, 80))], "raw-bytes"))
    # 5. mutated listing lines straight into the assembler (PEG details of push|op, word_size, hex)
    for i in range(1500 if thorough else 350):
        k = rng.choice([1, 1, 1, 2, 3])
        cases.append(lines_case([mutated_line(rng, table) for _ in range(k)], "mutated-lines"))
    for l in ["push0", "push1 0x00", "push1  0x00", "push33 0x00", "jumpi", "jump", "mstore8", "mstore", "push32 0x00",
              "push1 0x0100", "push2 0x0001", "push1\t0xff", "origin", "or", "invalid", "invalid_0c", "swap16", "swap17",
              "dup16", "log4", "log5", "push10 0x00000000000000000001", "push3 0x000001", "push30 0x01", "push2 0x1"]:
        cases.append(lines_case([l], "fixed-lines"))

    def canon(s):
        return common.canon_default(s)

    dis = common.correspond(run, cases, IMPORTS, tag="c03", canon=canon)
    # the model answers `Unmodelled` outside its fragment: those are not comparisons
    unmodelled = [c for c in dis if (c["model"] or "").startswith("err:Unmodelled")]
    dis = [c for c in dis if c not in unmodelled]
    run.corr["disagreements"] -= len(unmodelled)
    nun = sum(1 for c in cases if (c.get("model") or "").startswith("err:Unmodelled"))
    run.corr["rule"] = ("dis_listing: each defined opcode alone, every push width x {zero, leading-zero, ff, random, one, top}, random "
                        "defined-only strings up to 400 instructions (thorough 1500), truncated tails, undefined opcodes, raw bytes; "
                        "listing_asm: mutated lines over the listing alphabet; "
                        f"{nun} mutated cases answered Unmodelled by the model are excluded from the comparison")
    run.notes.append(f"unmodelled (outside the fragment, not compared): {nun}")
    # property oracle on the implementation
    found = 0
    nprop = 0
    for c in cases:
        if "bs" not in c:
            continue
        if c["impl"] is None or c["impl"].startswith("panic") or c["impl"].startswith("crash"):
            problems = [f"implementation crashed: {c['impl']}"]
        else:
            problems = oracle(c["impl"], c["bs"], table)
            items, left = py_decode(c["bs"])
            if not left and all(x in table for _, x, _ in items):
                nprop += 1
        if problems:
            found += 1
            if found <= 3:
                h = bytes(c["bs"]).hex() or "-"
                run.violation(dict(property="C03", input_hex=h, impl=c["impl"], problems=problems,
                                   replay=f"echo 'dis_listing {h}' | .cache/target/debug/etk-vh"))
    run.notes.append(f"property oracle evaluated on {nprop} complete defined-only inputs")
    found += binaries_round_trip(run, rng, table, plain)
    if (not proof_ok or dis) and not found:
        if dis:
            d = dis[0]
            run.log(f"DISAGREE {d['req'][:300]}: impl={d['impl']!r} model={d['model']!r}")
            run.violation_unproved("correspondence Model/Listing.v vs etk-asm (disasm, parse, ops)",
                                   dict(request=d["req"][:2000], impl=d["impl"], model=d["model"], n=len(dis),
                                        lines=d.get("lines")))
        else:
            run.violation_unproved("theorems of Props/C03.v", run.proof["log"])
    return run.finish(trusted=TRUSTED)


def replay(obj):
    print(obj)
    if "replay" in obj:
        rc, out = common.sh(obj["replay"], cwd=common.VERIF)
        print(out)
    return 0
