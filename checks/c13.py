"""C13 -- programs assemble exactly when well formed; faults yield the matching error."""
import copy
from lib import asmgen as G
from checks import asmfam
from checks.asmfam import mk_case, answer_bytes, answer_kind, replay  # noqa: F401


def base_program(rng):
    """a well-formed program with backward and forward references (also inside one operand),
    an instruction macro with a local label and a parameter, an expression macro"""
    prog = [
        ("defe", "twice", ["x"], G.climb([("var", "x"), "*", ("num", 2)])),
        ("defi", "guard", ["t"], [("label", "chk"), ("op", "jumpdest", None), ("op", "push2", ("var", "t")), ("push", ("lbl", "chk"))]),
        ("label", "start"), ("op", "jumpdest", None),
        ("op", "push2", G.climb([("lbl", "start"), "+", ("lbl", "end")])),      # backward + forward in one operand
        ("macro", "guard", [("lbl", "end")]),
        ("op", "push1", ("macro", "twice", [("num", rng.randrange(0, 100))])),
        ("push", ("lbl", "end")),
        ("op", "pc", None),
        ("macro", "guard", [("macro", "twice", [("lbl", "start")])]),
        ("label", "end"), ("op", "jumpdest", None),
    ]
    if rng.random() < 0.5:      # the parameter also inside the argument of an expression macro, and twice in one invocation
        body = prog[1][3]
        body.insert(3, ("op", "push2", ("macro", "twice", [("var", "t")])))
        body.insert(4, ("op", "push2", ("macro", "twice", [G.climb([("var", "t"), "+", ("num", 1)]), ("var", "t")])))
    if rng.random() < 0.5:      # definitions after their uses
        defs = [o for o in prog if o[0] in ("defe", "defi")]
        prog = [o for o in prog if o[0] not in ("defe", "defi")] + defs
    return prog


FAULTS = ["dup_label", "undef_label_operand", "undef_label_push", "undef_label_macro_arg", "undef_label_macro_body",
          "undef_imacro", "undef_emacro", "emacro_missing_arg", "imacro_arity_less", "imacro_arity_more",
          "dup_macro", "div_zero_const", "div_zero_label", "too_large", "negative", "dup_local_label",
          "undef_variable", "imacro_as_expr", "recursive_imacro", "recursive_emacro", "unbound_var_nested", "missing_arg_nested",
          "undef_label_surplus_arg", "undef_emacro_surplus_arg", "undef_label_nested_arg", "undef_label_surplus_in_imacro_arg",
          "undef_label_surplus_in_push", "too_large_push", "too_large_push_in_macro", "negative_push",
          "undef_label_arg_like_local", "undef_label_arg_like_local_nested", "emacro_missing_arg_unused"]


def inject(rng, prog, fault):
    p = copy.deepcopy(prog)
    pos = rng.randrange(0, len(p) + 1)
    exp = None
    if fault == "dup_label":
        p.insert(pos, ("label", "start"))
        exp = ("DuplicateLabel", "start")
    elif fault == "undef_label_operand":
        p.insert(pos, ("op", "push1", G.climb([("lbl", "start"), "+", ("lbl", "nowhere")])))
        exp = ("UndeclaredLabels", "nowhere")
    elif fault == "undef_label_push":
        p.insert(pos, ("push", ("lbl", "nowhere")))
        exp = ("UndeclaredLabels", "nowhere")
    elif fault == "undef_label_macro_arg":
        p.insert(pos, ("macro", "guard", [("lbl", "nowhere")]))
        exp = ("UndeclaredLabels", "nowhere")
    elif fault == "undef_label_macro_body":
        p.insert(0, ("defi", "bad", [], [("op", "push1", ("lbl", "nowhere"))]))
        p.insert(max(pos, 1), ("macro", "bad", []))
        exp = ("UndeclaredLabels", "nowhere")
    elif fault == "undef_imacro":
        p.insert(pos, ("macro", "nomacro", []))
        exp = ("UndeclaredInstructionMacro", "nomacro")
    elif fault == "undef_emacro":
        p.insert(pos, ("op", "push1", ("macro", "nofun", [("num", 1)])))
        exp = ("UndeclaredExpressionMacro", "nofun")
    elif fault == "emacro_missing_arg":
        p.insert(pos, ("op", "push1", ("macro", "twice", [])))
        exp = ("UndeclaredVariableMacro", "x")
    elif fault == "emacro_missing_arg_unused":
        # the parameter without argument is not read by the body: still ill-formed (D32)
        p.insert(0, ("defe", "const5", ["x", "y"], G.climb([("var", "x"), "+", ("num", 5)])))
        p.insert(max(pos, 1), ("op", "push1", ("macro", "const5", [("num", 1)])))
        exp = ("UndeclaredVariableMacro", "y")
    elif fault == "imacro_arity_less":
        p.insert(pos, ("macro", "guard", []))
        exp = ("MacroArgumentCount", "guard")
    elif fault == "imacro_arity_more":
        p.insert(pos, ("macro", "guard", [("num", 1), ("num", 2)]))
        exp = ("MacroArgumentCount", "guard")
    elif fault == "dup_macro":
        p.insert(pos, ("defe", "twice", [], ("num", 1)))
        exp = ("DuplicateMacro", "twice")
    elif fault == "div_zero_const":
        p.insert(pos, ("op", "push1", G.climb([("num", 6), "/", ("paren", G.climb([("num", 3), "-", ("num", 3)]))])))
        exp = ("DivisionByZero", None)
    elif fault == "div_zero_label":
        p.insert(pos, ("op", "push1", G.climb([("num", 6), "/", ("lbl", "zero")])))
        p.insert(0, ("label", "zero"))                                                   # zero = 0
        exp = ("DivisionByZero", None)
    elif fault == "too_large":
        p.insert(pos, ("op", "push1", G.climb([("lbl", "end"), "+", ("num", 250)])))
        exp = ("ExpressionTooLarge", None)
    elif fault == "negative":
        p.insert(pos, ("op", "push1", G.climb([("lbl", "zero"), "-", ("num", 1)])))
        p.insert(0, ("label", "zero"))
        exp = ("ExpressionNegative", None)
    elif fault == "dup_local_label":
        p.insert(0, ("defi", "twolabels", [], [("label", "z"), ("op", "pc", None), ("label", "z")]))
        p.insert(max(pos, 1), ("macro", "twolabels", []))
        exp = ("DuplicateLabel", "z")
    elif fault == "undef_variable":
        p.insert(pos, ("op", "push1", ("var", "q")))
        exp = ("UndeclaredVariableMacro", "q")
    elif fault == "imacro_as_expr":
        p.insert(pos, ("op", "push1", ("macro", "guard", [("num", 1)])))
        exp = ("UndeclaredExpressionMacro", "guard")
    elif fault == "recursive_imacro":
        p.insert(0, ("defi", "loopm", [], [("op", "pc", None), ("macro", "loopm", [])]))
        p.insert(max(pos, 1), ("macro", "loopm", []))
        exp = ("RecursionLimit", None)
    elif fault == "unbound_var_nested":
        # the callee binds nothing and uses $x; the caller binds x: must be reported, not captured
        p.insert(0, ("defe", "innerq", [], G.climb([("var", "x"), "+", ("num", 1)])))
        p.insert(0, ("defe", "outerq", ["x"], G.climb([("macro", "innerq", []), "*", ("num", 2)])))
        p.insert(max(pos, 2), ("op", "push1", ("macro", "outerq", [("num", 5)])))
        exp = ("UndeclaredVariableMacro", "x")
    elif fault == "missing_arg_nested":
        p.insert(0, ("defe", "innerq", ["x"], G.climb([("var", "x"), "+", ("lbl", "end")])))
        p.insert(0, ("defe", "outerq", ["x"], ("macro", "innerq", [])))
        p.insert(max(pos, 2), ("op", "push1", ("macro", "outerq", [("lbl", "start")])))
        exp = ("UndeclaredVariableMacro", "x")
    elif fault == "undef_label_surplus_arg":
        # more arguments than parameters: the surplus one is never evaluated, its labels still must exist
        p.insert(pos, ("op", "push1", ("macro", "twice", [("num", 1), ("lbl", "nowhere")])))
        exp = ("UndeclaredLabels", "nowhere")
    elif fault == "undef_emacro_surplus_arg":
        p.insert(pos, ("op", "push1", ("macro", "twice", [("num", 1), ("macro", "nofun", [("num", 2)])])))
        exp = ("UndeclaredExpressionMacro", "nofun")
    elif fault == "undef_label_nested_arg":
        p.insert(pos, ("op", "push2", ("macro", "twice", [("macro", "twice", [("lbl", "nowhere")])])))
        exp = ("UndeclaredLabels", "nowhere")
    elif fault == "undef_label_surplus_in_imacro_arg":
        p.insert(pos, ("macro", "guard", [("macro", "twice", [("num", 1), G.climb([("lbl", "start"), "+", ("lbl", "nowhere")])])]))
        exp = ("UndeclaredLabels", "nowhere")
    elif fault == "undef_label_surplus_in_push":
        p.insert(pos, ("push", ("macro", "twice", [("lbl", "end"), ("lbl", "nowhere")])))
        exp = ("UndeclaredLabels", "nowhere")
    elif fault == "undef_label_arg_like_local":
        # the argument names a label that exists only INSIDE the macro: at the call site it is undeclared
        p.insert(0, ("defi", "loc", ["x"], [("label", "inside"), ("op", "jumpdest", None), ("op", "push1", ("var", "x"))]))
        p.insert(max(pos, 1), ("macro", "loc", [("lbl", "inside")]))
        exp = ("UndeclaredLabels", "inside")
    elif fault == "undef_label_arg_like_local_nested":
        p.insert(0, ("defi", "locin", ["p"], [("op", "push1", ("var", "p"))]))
        p.insert(0, ("defi", "locout", ["q"], [("label", "inside"), ("op", "jumpdest", None), ("macro", "locin", [G.climb([("var", "q"), "+", ("num", 1)])])]))
        p.insert(max(pos, 2), ("macro", "locout", [("lbl", "inside")]))
        exp = ("UndeclaredLabels", "inside")
    elif fault == "too_large_push":
        p.insert(pos, ("push", G.climb([("lbl", "end"), "+", ("num", 2 ** 256)])))
        exp = ("ExpressionTooLarge", None)
    elif fault == "too_large_push_in_macro":
        p.insert(0, ("defi", "bigm", ["x"], [("push", G.climb([("var", "x"), "*", ("num", 2 ** 256)]))]))
        p.insert(max(pos, 1), ("macro", "bigm", [("lbl", "end")]))
        exp = ("ExpressionTooLarge", None)
    elif fault == "negative_push":
        p.insert(pos, ("push", G.climb([("lbl", "zero"), "-", ("num", 1)])))
        p.insert(0, ("label", "zero"))
        exp = ("ExpressionNegative", None)
    elif fault == "recursive_emacro":
        p.insert(0, ("defe", "loope", [], ("macro", "loope", [])))
        p.insert(max(pos, 1), ("op", "push1", ("macro", "loope", [])))
        exp = ("RecursionLimit", None)
    return p, exp


DORMANT = {
    # faults inside the body of an instruction macro that is never invoked, or the body of an expression macro
    # that is never used: nothing of it is expanded or evaluated, the program is well formed
    "dormant_dup_local_label": ("defi", "unused1", [], [("label", "a"), ("op", "jumpdest", None), ("label", "a"), ("op", "jumpdest", None)]),
    "dormant_undef_label": ("defi", "unused2", [], [("op", "push1", ("lbl", "nowhere"))]),
    "dormant_undef_imacro": ("defi", "unused3", [], [("macro", "nomacro", [])]),
    "dormant_arity": ("defi", "unused4", [], [("macro", "guard", [])]),
    "dormant_div_zero": ("defi", "unused5", [], [("op", "push1", G.climb([("num", 1), "/", ("num", 0)]))]),
    "dormant_undef_variable": ("defi", "unused6", ["q"], [("op", "push1", ("var", "zz"))]),
    "dormant_emacro_undef_label": ("defe", "unused7", [], ("lbl", "nowhere")),
    "dormant_emacro_unknown_macro": ("defe", "unused8", [], ("macro", "nofun", [])),
    "dormant_emacro_unbound_variable": ("defe", "unused9", [], ("var", "zz")),
    "dormant_label_like_outer": ("defi", "unused10", [], [("label", "start"), ("op", "jumpdest", None)]),
}
# user labels spelled like names an expansion of `guard` (local label `chk`) could be given: ordinary labels
MANGLED_LIKE = [f"guard_chk_{k}" for k in list(range(0, 14)) + ["00", "x", ""]]


def oracle(c, ans):
    k = answer_kind(ans)
    if k in ("panic", "crash"):
        return []
    exp = c["expect"]
    problems = []
    if exp is None:
        if k != "ok":
            problems.append(f"a well-formed program was rejected with {ans[:150]}")
        return problems
    if k == "ok":
        problems.append(f"a program with fault {c['cat']} assembled")
        return problems
    if c["nfaults"] == 1:
        kind, name = exp
        if k != kind:
            problems.append(f"fault {c['cat']}: expected error {kind}, got {ans[:150]}")
        elif name is not None and f"({name})" not in ans and f"{name}" not in ans.split("(", 1)[1]:
            problems.append(f"fault {c['cat']}: error does not name `{name}`: {ans[:150]}")
    return problems


def check(run):
    rng = run.rng
    cases = []
    reps = 14 if run.tier == "thorough" else 5
    for _ in range(40 if run.tier == "thorough" else 8):
        cases.append(mk_case(base_program(rng), "well-formed", expect=None, nfaults=0))
    for name, d in DORMANT.items():
        for _ in range(2 if run.tier != "thorough" else 5):
            p = base_program(rng)
            p.insert(rng.randrange(0, len(p) + 1), d)
            cases.append(mk_case(p, name, expect=None, nfaults=0))
    for name in MANGLED_LIKE:
        p = base_program(rng)
        at = next(i for i, o in enumerate(p) if o == ("label", "end"))
        p[at:at] = [("label", name), ("op", "jumpdest", None), ("op", "push2", ("lbl", name))]
        cases.append(mk_case(p, "label-spelled-like-a-mangled-one", expect=None, nfaults=0))
        p = base_program(rng)
        p.insert(next(i for i, o in enumerate(p) if o == ("label", "end")), ("op", "push2", ("lbl", name)))
        cases.append(mk_case(p, "undeclared-label-spelled-like-a-mangled-one", expect=("UndeclaredLabels", name), nfaults=1))
    for f in FAULTS:
        for _ in range(reps):
            p, exp = inject(rng, base_program(rng), f)
            cases.append(mk_case(p, f, expect=exp, nfaults=1))
    # two faults: the program must still be rejected (which error wins is decided by the model)
    for _ in range(80 if run.tier == "thorough" else 15):
        f1, f2 = rng.sample(FAULTS, 2)
        p, e1 = inject(rng, base_program(rng), f1)
        p, e2 = inject(rng, p, f2)
        cases.append(mk_case(p, f"{f1}+{f2}", expect=e1, nfaults=2))
    return asmfam.run_family(run, "C13", cases, oracle,
                             "a well-formed base program (backward+forward reference in one operand, instruction macro with local label and parameter, expression macro, definitions before or after use) with 0, 1 or 2 injected faults out of 33 kinds (incl. surplus arguments, out-of-range %push inside and outside macros, an undeclared label argument spelled like a macro-local label) at a random position; 10 kinds of DORMANT faults (inside macros that are never invoked or used: still well formed); declared / undeclared user labels spelled like mangled macro-local names; oracle: well-formed => ok, one fault => the matching error kind naming the offender; distinct = distinct sources",
                             "well-formedness and error kinds")
