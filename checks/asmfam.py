"""Shared flow for the assembler-family properties (C02 C07 C09 C10 C11 C13 C14)."""
from lib import common, asmgen as G

IMPORTS = "From Verif Require Import Model.Base Model.Ops Model.Expr Model.Asm."

TRUSTED = [
    "Coq 8.16.1 kernel incl. vm_compute; axioms: none",
    "tools/gen_tables.py (opcode table regenerated from the TOML)",
    "Model/Asm.v + Model/Expr.v: hand-written model of the assembler (push/expand_macro/layout/emit) and of operand evaluation; tied to the code by differential runs on generated programs printed to source text (the pest parser is exercised, not modelled here)",
    "mangled macro label suffixes (rand::thread_rng) modelled by a counter; collisions assumed away",
    "harness crate etk-vh and python driver; python reference evaluator/decoder used only for the counter-example search",
]


def mk_case(prog, cat, **meta):
    src = G.prog_src(prog)
    d = dict(req="asm " + src.encode().hex(), coq=f"run_asm {G.prog_coq(prog)}", cat=cat, prog=prog, src=src)
    d.update(meta)
    return d


def answer_bytes(ans):
    if ans and ans.startswith("ok:"):
        return bytes.fromhex(ans[3:]) if ans[3:] != "-" else b""
    return None


def answer_kind(ans):
    """'ok' | error kind | 'panic' | 'crash'"""
    if not ans:
        return "crash"
    if ans.startswith("ok:"):
        return "ok"
    if ans.startswith("err:"):
        return ans[4:].split("(")[0]
    if ans.startswith("panic"):
        return "panic"
    return "crash"


def run_family(run, pid, cases, oracle, rule, what):
    """cases: list from mk_case.  oracle(case, impl_answer) -> list of problems (property violated
    on the implementation's answer)."""
    proof_ok = run.prove()
    ok, out, dt = common.build_harness(False)
    if not ok:
        run.violation_unproved("harness-build", out)
        return run.finish(trusted=TRUSTED)
    from checks import asmpool
    cases = list(cases) + asmpool.pool(run, pid)
    dis = common.correspond(run, cases, IMPORTS, tag=pid.lower(), timeout=900)
    run.corr["rule"] = rule + "; plus the shared pool of the sibling assembler families (categories pool:*, model comparison and generic oracle only)"
    found = 0
    for c in cases:
        ans = c["impl"] or ""
        problems = list(oracle(c, ans)) if not c.get("pool") else []
        if ans.startswith("panic") or ans.startswith("crash") or ans == "":
            problems.append("assembler did not return a value: " + (ans[:200] or "no answer"))
        if "err:" in ans and " out=" in ans and not ans.endswith("out=-"):
            problems.append("output bytes were produced although assembly failed")
        if problems:
            found += 1
            if found <= 3:
                run.violation(dict(property=pid, source=c["src"][:4000], impl=ans[:400], problems=problems,
                                   replay="printf 'asm %s\\n' $(printf '%s' \"$SRC\" | xxd -p | tr -d '\\n') | .cache/target/debug/etk-vh   # SRC = the source above"))
    if (not proof_ok or dis) and not found:
        if dis:
            d = dis[0]
            run.log(f"DISAGREE ({len(dis)}) src={d['src'][:300]!r}: impl={str(d['impl'])[:200]!r} model={str(d['model'])[:200]!r}")
            run.violation_unproved(f"correspondence Model/Asm.v vs etk-asm ({what})", dict(source=d["src"][:3000], impl=d["impl"], model=d["model"], n=len(dis)))
        else:
            run.violation_unproved(f"theorems of Props/{pid}.v", run.proof["log"])
    return run.finish(trusted=TRUSTED)


def replay(obj):
    print(obj)
    if "source" in obj:
        res, rc, raw = common.run_harness(["asm " + obj["source"].encode().hex()])
        print("implementation now answers:", res)
    return 0
