"""C04 -- disassembly is lossless and independent of how the input is chunked."""
from lib import common
from lib.common import coq_bytes

IMPORTS = "From Verif Require Import Model.Base Model.Ops Model.Disasm."

TRUSTED = [
    "Coq 8.16.1 kernel incl. vm_compute; axioms: none",
    "tools/gen_tables.py (the Cancun table used by the model is regenerated from the TOML)",
    "Model/Disasm.v is a hand-written model of Iter::next / Write / finish (VecDeque as list); tied to the code by differential histories",
    "harness crate etk-vh and python driver; python reference decoder used only for the counter-example search",
]


def imm_len(b):
    return b - 0x5F if 0x60 <= b <= 0x7F else 0


def py_decode(bs):
    """Independent reference: longest prefix of whole instructions."""
    items, off = [], 0
    while off < len(bs):
        n = 1 + imm_len(bs[off])
        if off + n > len(bs):
            break
        items.append((off, bs[off], bytes(bs[off + 1:off + n])))
        off += n
    return items, bytes(bs[off:])


def rand_bytes(rng, n):
    out = []
    while len(out) < n:
        r = rng.random()
        if r < 0.45:
            b = rng.randrange(0x5F, 0x80)
        elif r < 0.6:
            b = rng.choice([0x00, 0x5B, 0x56, 0x57, 0xFE, 0xFF, 0x0C, 0x5E, 0x5F])
        else:
            b = rng.randrange(256)
        out.append(b)
    return out[:n]


def partition(rng, bs, style):
    parts, i = [], 0
    while i < len(bs):
        if style == "one":
            k = 1
        elif style == "whole":
            k = len(bs)
        else:
            k = rng.choice([1, 1, 2, 3, 5, 8, 13, 40])
        parts.append(bs[i:i + k])
        i += k
    return parts


def schedule(rng, parts, poll):
    toks = []
    for p in parts:
        toks.append(("w", p))
        if poll == "each":
            toks.append(("a",))
        elif poll == "rand":
            for _ in range(rng.choice([0, 0, 1, 1, 2, 3])):
                toks.append(("n",))
            if rng.random() < 0.2:
                toks.append(("a",))
    toks.append(("a",))
    toks.append(("f",))
    return toks


def to_req(toks):
    out = []
    for t in toks:
        if t[0] == "w":
            out.append("w" + (bytes(t[1]).hex() if t[1] else "-"))
        else:
            out.append(t[0])
    return "dis_hist " + " ".join(out)


def to_coq(toks):
    m = {"n": "HN", "a": "HA", "f": "HF"}
    return "run_dis_hist [" + "; ".join(f"HW {coq_bytes(t[1])}" if t[0] == "w" else m[t[0]] for t in toks) + "]"


def oracle(impl_answer, bs):
    """Evaluate the property itself on the implementation's answer (independent of the model)."""
    toks = impl_answer.split(" ")
    items = []
    fin = None
    for t in toks:
        if t.startswith("op("):
            off, code, imm = t[3:-1].split(",")
            items.append((int(off), int(code), bytes.fromhex(imm) if imm != "-" else b""))
        elif t.startswith("fin:"):
            fin = t
    exp_items, left = py_decode(bs)
    problems = []
    if items != exp_items:
        problems.append(f"decoded items differ from the longest whole-instruction prefix: got {items[:6]}.. expected {exp_items[:6]}..")
    if left:
        want = f"fin:trunc({len(bs) - len(left)},{left.hex()})"
    else:
        want = "fin:ok"
    if fin != want:
        problems.append(f"finish reported {fin}, expected {want}")
    return problems


def check(run):
    rng = run.rng
    proof_ok = run.prove()
    ok, out, dt = common.build_harness(False)
    if not ok:
        run.violation_unproved("harness-build", out)
        return run.finish(trusted=TRUSTED)
    cases = []
    n = 1500 if run.tier == "thorough" else 320
    for i in range(n):
        ln = rng.choice([0, 1, 2, 3, 5, 8, 13, 33, 34, 60, 120]) if i % 3 else rng.randrange(0, 40)
        bs = rand_bytes(rng, ln)
        if bs and rng.random() < 0.5:   # force a truncated trailing push
            k = rng.randrange(1, 33)
            bs = bs + [0x5F + k] + rand_bytes(rng, rng.randrange(0, k))
        style = rng.choice(["one", "whole", "rand", "rand"])
        poll = rng.choice(["each", "rand", "rand", "end"])
        toks = schedule(rng, partition(rng, bs, style), poll)
        cases.append(dict(req=to_req(toks), coq=to_coq(toks), cat=f"{style}/{poll}", bs=bs))
    # long inputs (buffer management that only shows beyond a few KiB: reclaim thresholds, ring growth):
    # one write, big chunks, and chunks around powers of two, with pushes straddling every boundary
    for ln, chunk in ((4200, None), (9000, None), (9000, 4096), (12000, 1000), (20000, 8192)) + (((70000, None), (70000, 65536)) if run.tier == "thorough" else ()):
        bs = []
        while len(bs) < ln:
            bs += [rng.choice([0x61, 0x62, 0x7F, 0x60, 0x5B, 0x00, 0x01])] + []
            k = bs[-1] - 0x5F if 0x60 <= bs[-1] <= 0x7F else 0
            bs += [rng.randrange(256) for _ in range(k)]
        parts = [bs] if chunk is None else [bs[i:i + chunk] for i in range(0, len(bs), chunk)]
        toks = schedule(rng, parts, "each" if chunk else "end")
        cases.append(dict(req=to_req(toks), coq=to_coq(toks), cat="long", bs=bs))
    if run.tier == "thorough":
        # exhaustive over all split points (two-way and three-way) of short strings
        for _ in range(40):
            bs = rand_bytes(rng, rng.randrange(2, 12))
            for i in range(len(bs) + 1):
                for j in range(i, len(bs) + 1):
                    parts = [bs[:i], bs[i:j], bs[j:]]
                    toks = [("w", parts[0]), ("n",), ("w", parts[1]), ("a",), ("w", parts[2]), ("a",), ("f",)]
                    cases.append(dict(req=to_req(toks), coq=to_coq(toks), cat="exhaustive-splits", bs=bs))
    dis = common.correspond(run, cases, IMPORTS, tag="c04")
    run.corr["rule"] = ("random byte strings biased to push opcodes with truncated tails x partitions (1-byte, whole, random) x poll schedules; "
                        "distinct = distinct histories; non-trivial = all (every history ends with drain+finish)")
    # property oracle on the implementation (search for a concrete failing input)
    found = 0
    for c in cases:
        if c["impl"] is None or c["impl"].startswith("panic") or c["impl"].startswith("crash"):
            problems = [f"implementation crashed: {c['impl']}"]
        else:
            problems = oracle(c["impl"], c["bs"])
        if problems:
            found += 1
            if found <= 3:
                run.violation(dict(property="C04", input_hex=bytes(c["bs"]).hex(), history=c["req"], impl=c["impl"], problems=problems,
                                   replay=f"echo '{c['req']}' | .cache/target/debug/etk-vh"))
    if (not proof_ok or dis) and not found:
        if dis:
            d = dis[0]
            run.log(f"DISAGREE {d['req']}: impl={d['impl']!r} model={d['model']!r}")
            run.violation_unproved("correspondence Model/Disasm.v vs etk-asm disasm.rs", dict(request=d["req"], impl=d["impl"], model=d["model"], n=len(dis)))
        else:
            run.violation_unproved("theorems of Props/C04.v", run.proof["log"])
    return run.finish(trusted=TRUSTED)


def replay(obj):
    print(obj)
    if "replay" in obj:
        rc, out = common.sh(obj["replay"], cwd=common.VERIF)
        print(out)
    return 0
