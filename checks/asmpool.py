"""A shared pool of assembler programs: every assembler property runs, next to its own family, a
sample of the programs of the sibling families through the implementation and the model.  A
change that breaks property X through a mechanism that only family Y exercises still shows up in
X's check as a broken correspondence (the theorems of X are about the same model).  Each host only
takes the families that exercise the mechanism its property is about.  Pool cases
carry no family-specific expectation: only the generic oracle (a returned value, no output on
error) and the model comparison apply to them."""
import random


class _Run:
    def __init__(self, seed, tier):
        self.rng = random.Random(seed * 7919 + 17)
        self.tier = "quick"          # pool sizes do not grow with the tier of the host check
        self.seed = seed


def pool(run, own):
    from lib import asmgen as G          # noqa: F401
    from checks import c01, c07, c09, c10, c11, c13
    from checks.asmfam import mk_case
    r = _Run(run.seed, run.tier)
    rng = r.rng
    out = []
    if own != "C09":
        out += [mk_case(c["prog"], "pool:range") for c in c09.gen(r)]
    if own != "C07":
        out += [mk_case(c["prog"], "pool:autosize") for c in c07.gen(r)[::2]]
        out += [mk_case(c["prog"], "pool:label-push") for c in c07.label_dependent_cases(r)]
    if own not in ("C01", "C07"):
        for prog, order, cat in c01.cascade_programs(rng, 12):
            out.append(mk_case(prog, "pool:cascade"))
        for _ in range(8):
            out.append(mk_case(c01.gen_program(rng)[0], "pool:layout"))
        for _ in range(4):
            out.append(mk_case(c01.gen_macro_program(rng)[0], "pool:layout-macro"))
    if own != "C10":
        out += [mk_case(p, "pool:imacro") for p in c10.designed()]
        out += [mk_case(c10.gen_case(rng), "pool:imacro") for _ in range(50)]
    if own != "C11":
        out += [mk_case(c11.gen_case(rng)[0], "pool:emacro") for _ in range(50)]
    if own not in ("C13", "C14"):
        for f in c13.FAULTS:
            out.append(mk_case(c13.inject(rng, c13.base_program(rng), f)[0], "pool:fault"))
    # only the sibling families that exercise the mechanism the host property is about
    relevant = {
        "C01": ("cascade", "layout", "layout-macro", "label-push", "imacro"),
        "C02": ("range", "autosize"),
        "C07": ("range", "cascade", "layout"),
        "C09": ("autosize", "label-push", "cascade"),
        "C10": ("layout-macro", "fault"),
        "C11": ("fault", "autosize"),
        "C13": ("range", "label-push", "imacro", "emacro"),
    }.get(own)
    if relevant is not None:
        out = [c for c in out if c["cat"].split(":")[1] in relevant]
    for c in out:
        c["pool"] = True
    return out
