"""C09 -- out-of-range operands are rejected, never truncated."""
from lib import asmgen as G
from checks import asmfam
from checks.asmfam import mk_case, answer_bytes, answer_kind, replay  # noqa: F401


def filler(n):
    return [("op", "pc", None)] * n


def gen(run):
    rng = run.rng
    cases = []
    widths = list(range(1, 33)) if run.tier == "thorough" else [1, 2, 3, 4, 8, 16, 31, 32]
    for N in widths:
        for delta in (-1, 0):
            v = 256 ** N + delta
            m = f"push{N}"
            # constant (decimal and hex), arithmetic, expression macro
            cases.append(mk_case([("op", m, ("num", v))], "const", N=N, v=v, kind="fixed"))
            cases.append(mk_case([("op", m, G.climb([("num", v - 1), "+", ("num", 1)]))], "arith", N=N, v=v, kind="fixed"))
            if v % 2 == 0:
                cases.append(mk_case([("op", m, G.climb([("num", v // 2), "*", ("num", 2)]))], "arith-mul", N=N, v=v, kind="fixed"))
            cases.append(mk_case([("defe", "k", [], ("num", v)), ("op", m, ("macro", "k", []))], "emacro", N=N, v=v, kind="fixed"))
            # macro argument
            cases.append(mk_case([("defi", "m", ["x"], [("op", m, ("var", "x"))]), ("macro", "m", [("num", v)])], "macro-arg", N=N, v=v, kind="fixed"))
        cases.append(mk_case([("op", f"push{N}", G.climb([("num", 5), "-", ("num", 6)]))], "negative", N=N, v=-1, kind="fixed"))
    # label dependent: backward / forward labels landing on the push1 / push2 boundary
    for N, target in ((1, 255), (1, 256), (1, 257), (2, 65535), (2, 65536)):
        if target > 1000 and run.tier != "thorough" and target != 65536:
            continue
        big = [("op", "push32", ("num", 7, 16))] * (target // 33) + filler(target % 33)
        m = f"push{N}"
        # backward label with value `target`
        cases.append(mk_case(big + [("label", "l"), ("op", "jumpdest", None), ("op", m, ("lbl", "l"))], "backward", N=N, v=target, kind="fixed"))
        # forward label: push at 0, label at 1+N+pad = target
        pad = target - (1 + N)
        bigf = [("op", "push32", ("num", 7, 16))] * (pad // 33) + filler(pad % 33)
        cases.append(mk_case([("op", m, ("lbl", "l"))] + bigf + [("label", "l"), ("op", "jumpdest", None)], "forward", N=N, v=target, kind="fixed"))
        # label moved across the boundary by back-patching: an auto-sized push before it grows
        if target < 1000:
            pad2 = target - (1 + N) - 2
            cases.append(mk_case([("op", m, ("lbl", "l")), ("push", ("+", ("lbl", "l"), ("num", 300)))] + filler(max(pad2, 0)) + [("label", "l"), ("op", "jumpdest", None)],
                                 "moved", N=N, v=None, kind="fixed"))
    # %push boundaries
    for a, b in ((2 ** 128, 2 ** 128), (2 ** 255, 2), (2 ** 200, 2 ** 100), (2 ** 127, 2 ** 128)):
        cases.append(mk_case([("push", G.climb([("num", a), "*", ("num", b)]))], "unsized-mul", N=32, v=a * b, kind="unsized"))
        cases.append(mk_case([("label", "z"), ("op", "jumpdest", None), ("label", "o"), ("push", G.climb([("paren", G.climb([("lbl", "o"), "-", ("lbl", "z")])), "*", ("num", a), "*", ("num", b)]))],
                             "unsized-mul-label", N=32, v=a * b, kind="unsized"))
    for v in (2 ** 256 - 1, 2 ** 256, 2 ** 256 + 5, -1, -2 ** 255):
        e = ("num", v) if v >= 0 else G.climb([("num", 0), "-", ("num", -v)])
        cases.append(mk_case([("push", e)], "unsized", N=32, v=v, kind="unsized"))
        cases.append(mk_case([("label", "z"), ("push", G.climb([("lbl", "z"), "+", e if v >= 0 else ("paren", e)]))], "unsized-label", N=32, v=v, kind="unsized"))
    # %push whose value comes out of an expression macro (constant or label-dependent argument): the layout
    # must size it like any other value
    for v in (255, 256, 257, 65535, 65536, 2 ** 128, 2 ** 256 - 1, 2 ** 256):
        cases.append(mk_case([("defe", "k", [], ("num", v)), ("push", ("macro", "k", []))], "unsized-emacro", N=32, v=v, kind="unsized"))
        cases.append(mk_case([("defe", "k", ["x"], G.climb([("var", "x"), "+", ("num", v)])), ("label", "z"), ("push", ("macro", "k", [("lbl", "z")])), ("op", "jumpdest", None)],
                             "unsized-emacro-label", N=32, v=v, kind="unsized"))
    # values in (or out of) range that are reached through NEGATIVE intermediate results: a negative expression
    # macro body, a negative macro argument, a negative label distance -- only the operand's final value counts
    for N in ([1, 2, 32] if run.tier != "thorough" else [1, 2, 3, 8, 16, 31, 32]):
        m = f"push{N}"
        top = 256 ** N
        for v in (0, 1, top - 1, top, -1):
            neg = ("defe", "neg", [], G.climb([("num", 0), "-", ("num", 7)]))
            cases.append(mk_case([neg, ("op", m, G.climb([("num", v + 7), "+", ("macro", "neg", [])]))], "negative-macro-body", N=N, v=v, kind="fixed"))
            inc = ("defe", "inc", ["x"], G.climb([("var", "x"), "+", ("num", v + 3)]))
            cases.append(mk_case([inc, ("op", m, ("macro", "inc", [G.climb([("num", 0), "-", ("num", 3)])]))], "negative-macro-argument", N=N, v=v, kind="fixed"))
            back = ("defe", "back", [], G.climb([("lbl", "s"), "-", ("lbl", "h")]))
            cases.append(mk_case([back, ("label", "s"), ("op", "jumpdest", None), ("label", "h"),
                                  ("op", m, G.climb([("num", v + 1), "+", ("macro", "back", [])]))], "negative-label-distance", N=N, v=v, kind="fixed"))
            cases.append(mk_case([neg, ("push", G.climb([("num", v + 7), "+", ("macro", "neg", [])]))], "negative-macro-body-unsized", N=32, v=v if N == 32 else None, kind="unsized"))
            cases.append(mk_case([("defi", "im", ["a"], [("op", m, G.climb([("var", "a"), "+", ("num", v + 2)]))]), ("macro", "im", [G.climb([("num", 0), "-", ("num", 2)])])],
                                 "negative-imacro-argument", N=N, v=v, kind="fixed"))
    # an auto-sized push whose value is TOO LARGE in the first layout rounds only (forward label still small) and
    # fits under the final labels: only the final value counts -- and the other way round stays an error
    for k in ((2, 17, 32) if run.tier != "thorough" else range(2, 33)):
        e = G.climb([("num", 2 ** 256 + k), "-", ("lbl", "end")])
        cases.append(mk_case([("push", e), ("label", "end"), ("op", "jumpdest", None)], "unsized-transiently-too-large", N=32, v=2 ** 256 + k - 33, kind="unsized"))
        cases.append(mk_case([("defi", "m", ["c"], [("push", G.climb([("var", "c"), "-", ("lbl", "end")])), ("label", "end"), ("op", "jumpdest", None)]),
                              ("macro", "m", [("num", 2 ** 256 + k)])], "unsized-transiently-too-large", N=32, v=2 ** 256 + k - 33, kind="unsized"))
    cases.append(mk_case([("push", G.climb([("num", 2 ** 256 + 33), "-", ("lbl", "end")])), ("label", "end"), ("op", "jumpdest", None)], "unsized-label", N=32, v=2 ** 256, kind="unsized"))
    for _ in range(60 if run.tier == "thorough" else 15):
        N = rng.randrange(1, 33)
        v = rng.choice([0, 1, 256 ** N - 1, 256 ** N, rng.getrandbits(8 * N), rng.getrandbits(8 * N + 3)])
        cases.append(mk_case([("op", f"push{N}", ("num", v, rng.choice([10, 16])))], "random", N=N, v=v, kind="fixed"))
    return cases


def oracle(c, ans):
    """Property on the implementation's answer: success only if 0 <= v < 256^N (or 2^256 for %push),
    and then the immediate is v; otherwise an error and no output."""
    v, N = c.get("v"), c["N"]
    if v is None:
        return []
    k = answer_kind(ans)
    if k in ("panic", "crash"):
        return []
    fits = 0 <= v < 256 ** N
    problems = []
    if fits and k != "ok":
        problems.append(f"operand {v} fits push{N} but assembly failed with {k}")
    if not fits and k == "ok":
        problems.append(f"operand {v} does not fit ({'negative' if v < 0 else 'too large'}) but assembly succeeded: silently truncated/wrapped")
    if fits and k == "ok":
        bs = answer_bytes(ans)
        items = G.decode(bs)
        pushes = [(code, imm) for off, code, imm in items if 0x60 <= code <= 0x7F and int.from_bytes(imm, "big") == v]
        if not pushes:
            problems.append(f"no push carries the value {v}")
    return problems


def check(run):
    cases = gen(run)
    return asmfam.run_family(run, "C09", cases, oracle,
                             "for each width N: operand 256^N-1 / 256^N as constant, arithmetic (sum and product reaching 256^N), expression macro, macro argument, negative; backward/forward labels at the push1/push2 boundary; label moved across the boundary by back-patching; %push at 2^256-1 / 2^256 / negative, products reaching 2^256 (also with a label factor), values beyond 2^256 in the first layout rounds only; boundary values reached through negative intermediate results (expression macro body, macro argument, label distance, instruction macro argument); random values; distinct = distinct sources",
                             "operand range checks")
