"""C15 -- the analysis pipeline is total on arbitrary bytecode."""
from lib import common
from lib.common import coq_bytes
from checks import cfgcommon as C

IMPORTS = ("From Verif Require Import Model.Base Model.Sym Spec.SmtBv Model.Z3Tr Model.Cfg Model.Annot Model.Pipeline.\n"
           "Open Scope Z_scope.")

TRUSTED = [
    "Coq 8.16.1 kernel incl. vm_compute; axioms: none",
    "tools/gen_tables.py (opcode table regenerated from the TOML: the annotator's drop-time accounting is checked against it)",
    "Model/Pipeline.v composes the hand-written models of Disassembler (C04), Separator (C16), Annotator (C06), Z3Tr (C05ops) and ControlFlowGraph (C20); each is tied to the code by its own differential check, and the composition by this one",
    "z3 itself, petgraph and its Dot printer are not modelled; wall-clock behaviour of the solver is bounded by the per-query timeout of the implementation and observed, not proved",
    "harness crate etk-vh-analyze and python driver",
]

def known_deep():
    for f in common.load_known_findings():
        if f["pid"] == "C15" and f["cls"] == "deep-block":
            return f["cls"] + " " + f["text"]
    return None


def check(run):
    rng = run.rng
    proof_ok = run.prove()
    ok, out, dt = common.build_harness(True)
    if not ok:
        run.violation_unproved("harness-build", out)
        return run.finish(trusted=TRUSTED)
    cases = [(k, c) for k, b, c in C.opcode_position_codes()]
    if run.tier != "thorough":
        cases = [kc for i, kc in enumerate(cases) if kc[0] in ("alone", "middle", "target", "condition", "second-operand") or i % 9 == (i // 9) % 9]
    n = 600 if run.tier == "thorough" else 120
    for _ in range(n):
        cases.append(("structured", C.gen_code(rng)))
        ln = rng.choice([1, 2, 3, 5, 8, 13, 21, 40])
        cases.append(("random-bytes", bytes(rng.randrange(256) for _ in range(ln))))
    cases += C.systematic_codes()
    cases += C.literal_operand_codes(huge_exp=True) + C.HARD_CODES + C.long_block_codes()
    cases.append(("exp", bytes.fromhex("6003600a0a56")))
    cases.append(("exp-symbolic", bytes.fromhex("0a565b00")))
    cases.append(("mulmod-symbolic", bytes.fromhex("09565b00")))
    cases.append(("signextend", bytes.fromhex("600360050b565b00")))
    # many blocks that jump x many jump targets: the initial graph has (jumps) x (targets + 1) edges -- 65792 for
    # 256 `jumpdest; jump` blocks.  Refining such a graph takes the implementation about 50 minutes (one solver
    # query per edge), so these run construction + rendering only (`cfg <code> 0`); the model is evaluated on
    # them in the thorough tier only (3 minutes per input).
    many = [("many-edges", bytes.fromhex("5b56") * 256), ("many-edges", bytes.fromhex("5b56") * 300),
            ("many-edges", bytes.fromhex("5b") * 600 + bytes.fromhex("5b6000355756") * 120),
            ("many-edges", bytes.fromhex("5b600157") * 260)]
    many_reqs = [f"cfg {c.hex()} 0" for _, c in many]
    reqs = [f"cfg {c.hex() or '-'} 1" for _, c in cases]
    # the known finding, in its own process, started first (the annotator is quadratic in the
    # block length: about 3 minutes in a debug build)
    from concurrent.futures import ThreadPoolExecutor
    deep = bytes([0xA4]) * 10923
    pool = ThreadPoolExecutor(max_workers=1)
    deep_job = pool.submit(lambda: common.run_harness([f"cfg {deep.hex()} 1"], analyze=True, timeout=1500))
    ans, complete = common.run_harness_parallel(reqs, analyze=True, timeout=900, nproc=14)
    # model: does the pipeline model panic?  (the initial graph is also compared)
    exprs = [f"run_pipeline_initial {coq_bytes(list(c))}" for _, c in cases]
    model, errors = common.coq_eval(IMPORTS, exprs, tag="c15", timeout=900)
    found = dis = 0
    dist = run.corr["distribution"]
    bad_case = None
    for (k, c), a, m in zip(cases, ans, model):
        run.corr["cases"] += 1
        dist[k] = dist.get(k, 0) + 1
        impl_ok = a is not None and a.startswith("ok:")
        if not impl_ok:
            found += 1
            if found <= 3:
                run.violation(dict(property="C15", code=c.hex(), position=k, outcome=(a or "no answer")[:300],
                                   replay=f"echo 'cfg {c.hex() or '-'} 1' | .cache/target/debug/etk-vh-analyze"))
            continue
        mg = C.parse_model_cfg(m)
        if mg is None:
            dis += 1
            bad_case = bad_case or dict(code=c.hex(), impl="ok", model=(m or "no answer")[:300])
            continue
        # the implementation's refined graph must be a subgraph of the model's initial graph on the same nodes
        labels, edges = C.parse_dot(bytes.fromhex(a[3:]).decode())
        if sorted(labels) != sorted(["<terminate>", "<bad-jump>"] + mg[0]) or not set(edges) <= set(mg[1]):
            dis += 1
            bad_case = bad_case or dict(code=c.hex(), impl_nodes=labels, impl_edges=edges, model=m[:600])
        if len(run.samples) < 4:
            run.samples.append(dict(code=c.hex(), position=k, model_initial=m[:200], impl_refined_edges=len(edges)))
    many_ans, _ = common.run_harness_parallel(many_reqs, analyze=True, timeout=900, nproc=4)
    many_model = [None] * len(many)
    if run.tier == "thorough":
        many_model, _ = common.coq_eval(IMPORTS, [f"run_pipeline_initial {coq_bytes(list(c))}" for _, c in many], tag="c15many", timeout=2400)
    for (k, c), a, m in zip(many, many_ans, many_model):
        run.corr["cases"] += 1
        dist[k] = dist.get(k, 0) + 1
        if not (a is not None and a.startswith("ok:")):
            found += 1
            if found <= 3:
                run.violation(dict(property="C15", code=f"{c[:6].hex()}... ({len(c)} bytes, see replay)", position=k, outcome=(a or "no answer")[:300],
                                   replay=f"python3 -c \"print('cfg '+'{c.hex()}'+' 0')\" | .cache/target/debug/etk-vh-analyze"))
            continue
        labels, edges = C.parse_dot(bytes.fromhex(a[3:]).decode())
        if m is not None:
            mg = C.parse_model_cfg(m)
            if mg is None or sorted(labels) != sorted(["<terminate>", "<bad-jump>"] + mg[0]) or sorted(edges) != sorted(mg[1]):
                dis += 1
                bad_case = bad_case or dict(code=c.hex()[:80] + "...", impl_edges=len(edges), model=(m or "no answer")[:300])
    one, rc1, raw1 = deep_job.result()
    pool.shutdown()
    deep_ans = one[0] if one else f"crash:rc={rc1}"
    if deep_ans.startswith("ok:"):
        run.notes.append("the deep-block input no longer panics: the known finding may be fixed")
    elif known_deep() and "overflow" in deep_ans:
        run.known_finding(known_deep())
    else:
        found += 1
        run.violation(dict(property="C15", code="a4 x 10923", position="one block of 10923 log4", outcome=deep_ans[:300],
                           replay="python3 -c \"print('cfg '+'a4'*10923+' 1')\" | .cache/target/debug/etk-vh-analyze"))
    run.corr["distinct"] = len(set(c for _, c in cases))
    run.corr["disagreements"] = dis
    run.corr["rule"] = ("every opcode byte alone / first / middle / last in a block, feeding a jump target, feeding a branch condition, and on the entry stack; structured multi-block programs; random byte strings incl. truncated pushes; exp, mulmod, signextend in exit expressions; four programs whose initial graph has 31 000 - 90 000 edges (construction and rendering only: refining them takes the implementation ~50 minutes); "
                        "each through Disassembler -> Separator -> annotate -> ControlFlowGraph::new -> refine_shallow -> render in the implementation (outcome must be a rendered graph) and through Model/Pipeline.v (must not be Panic; its initial graph must contain the implementation's refined graph); distinct = distinct byte strings")
    if (not proof_ok or dis) and not found:
        if dis:
            run.log(f"DISAGREE ({dis}): {str(bad_case)[:500]}")
            run.violation_unproved("correspondence Model/Pipeline.v vs the implementation's pipeline", bad_case)
        else:
            run.violation_unproved("theorems of Props/C15.v", run.proof["log"])
    return run.finish(trusted=TRUSTED)


def replay(obj):
    print(obj)
    if "replay" in obj:
        rc, out = common.sh(obj["replay"], cwd=common.VERIF)
        print(out[:2000])
    return 0
