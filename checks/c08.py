"""C08 -- operand expressions are evaluated as exact integer arithmetic.

Correspondence: random programs `(pc | label:)* ; push32 <expr> ; (pc | label:)*` are run through the real
assembler (`asm`: bytes or error; `expr_debug`: Debug rendering of the operand's syntax tree) and through
Model/Parse.v (`run_parse_eval`, `run_tree`).  Property oracle: an independent recursive-descent reading of the
source text (python ints, division truncating toward zero, pure-python Keccak-256)."""
from lib import common
from lib.common import coq_str

IMPORTS = "From Verif Require Import Model.Base Model.Expr Model.ExprSimple Model.Parse."

TRUSTED = [
    "Coq 8.16.1 kernel incl. vm_compute; axioms: none",
    "Spec/Keccak.v: hand-written Keccak-256 (original padding 0x01), validated by published vectors, by multi-block vectors "
    "from the sha3 crate, and differentially (random signatures) against the sha3 crate and a pure-python Keccak in this check",
    "Model/Parse.v, Model/ExprSimple.v: hand-written models of parse/expression.rs, pest prec_climber, ops/expression.rs eval, "
    "parse_push and the push32 path of the assembler; tied to the code by value and tree-shape comparison",
    "the cutting of source text into tokens (blanks, maximal alphanumeric runs) is done by the python generator, "
    "which prints the token list it hands to the model; pest's generated parser for asm.pest is exercised only through the harness",
    "harness crate etk-vh (expr_debug extracts the `Imm { tree: .. }` part of the Debug string) and python driver",
]

TWO256 = 1 << 256

# ------------------------------------------------------------------ pure-python Keccak-256 (oracle only)
_RC = [0x0000000000000001, 0x0000000000008082, 0x800000000000808A, 0x8000000080008000, 0x000000000000808B,
       0x0000000080000001, 0x8000000080008081, 0x8000000000008009, 0x000000000000008A, 0x0000000000000088,
       0x0000000080008009, 0x000000008000000A, 0x000000008000808B, 0x800000000000008B, 0x8000000000008089,
       0x8000000000008003, 0x8000000000008002, 0x8000000000000080, 0x000000000000800A, 0x800000008000000A,
       0x8000000080008081, 0x8000000000008080, 0x0000000080000001, 0x8000000080008008]
_M = (1 << 64) - 1


def _rol(x, n):
    n %= 64
    return ((x << n) | (x >> (64 - n))) & _M if n else x


def _keccak_f(a):
    for rnd in range(24):
        c = [a[x][0] ^ a[x][1] ^ a[x][2] ^ a[x][3] ^ a[x][4] for x in range(5)]
        d = [c[(x - 1) % 5] ^ _rol(c[(x + 1) % 5], 1) for x in range(5)]
        a = [[a[x][y] ^ d[x] for y in range(5)] for x in range(5)]
        # rho + pi by walking the (x,y) -> (y, 2x+3y) orbit with triangular offsets
        x, y, cur = 1, 0, a[1][0]
        for t in range(24):
            x, y = y, (2 * x + 3 * y) % 5
            cur, a[x][y] = a[x][y], _rol(cur, (t + 1) * (t + 2) // 2)
        for y in range(5):
            row = [a[x][y] for x in range(5)]
            for x in range(5):
                a[x][y] = row[x] ^ ((~row[(x + 1) % 5]) & _M & row[(x + 2) % 5])
        a[0][0] ^= _RC[rnd]
    return a


def py_keccak256(data):
    rate = 136
    p = bytearray(data) + b"\x01"
    p += b"\x00" * (-len(p) % rate)
    p[-1] |= 0x80
    a = [[0] * 5 for _ in range(5)]
    for off in range(0, len(p), rate):
        blk = p[off:off + rate]
        for i in range(rate // 8):
            a[i % 5][i // 5] ^= int.from_bytes(blk[8 * i:8 * i + 8], "little")
        a = _keccak_f(a)
    return b"".join(a[i % 5][i // 5].to_bytes(8, "little") for i in range(4))


# ------------------------------------------------------------------ independent reading of the source text
class Reject(Exception):
    pass


class PyParser:
    """Textbook grammar: sum := product (('+'|'-') product)* ; product := atom (('*'|'/') atom)* ;
    atom := number | -digits | label | selector("sig") | topic("sig") | '(' sum ')'."""

    def __init__(self, text):
        self.s = text
        self.i = 0

    def ws(self):
        while self.i < len(self.s) and self.s[self.i] in " \t":
            self.i += 1

    def peek(self):
        self.ws()
        return self.s[self.i] if self.i < len(self.s) else ""

    def run_of(self, pred):
        j = self.i
        while j < len(self.s) and pred(self.s[j]):
            j += 1
        out = self.s[self.i:j]
        self.i = j
        return out

    def atom(self):
        c = self.peek()
        s = self.s
        for kw, size in (('selector("', 4), ('topic("', 32)):
            if s.startswith(kw, self.i):
                j = s.find('")', self.i)
                if j < 0:
                    raise Reject("unterminated signature")
                sig = s[self.i + len(kw):j]
                self.i = j + 2
                if not sig_valid(sig):
                    raise Reject("signature")
                return ("num", int.from_bytes(py_keccak256(sig.encode())[:size], "big"))
        if c == "(":
            self.i += 1
            e = self.sum()
            if self.peek() != ")":
                raise Reject("expected )")
            self.i += 1
            return e
        if c == "-":
            self.i += 1
            d = self.run_of(lambda ch: ch.isascii() and ch.isalnum())
            if not d or not all(ch in "0123456789" for ch in d):
                raise Reject("negative literal")
            return ("num", -int(d, 10))
        if c.isascii() and c.isdigit():
            w = self.run_of(lambda ch: ch.isascii() and ch.isalnum())
            return ("num", literal_value(w))
        if c.isascii() and c.isalpha():
            w = self.run_of(lambda ch: ch.isascii() and (ch.isalnum() or ch == "_"))
            return ("label", w)
        raise Reject(f"unexpected {c!r}")

    def product(self):
        e = self.atom()
        while self.peek() in ("*", "/") and self.peek():
            op = self.peek()
            self.i += 1
            e = (op, e, self.atom())
        return e

    def sum(self):
        e = self.product()
        while self.peek() in ("+", "-") and self.peek():
            op = self.peek()
            self.i += 1
            e = (op, e, self.product())
        return e

    def whole(self):
        e = self.sum()
        if self.peek() != "":
            raise Reject("trailing text")
        return e


def literal_value(w):
    low = w[:2]
    if low == "0b" and len(w) > 2 and all(ch in "01" for ch in w[2:]):
        return int(w[2:], 2)
    if low == "0o" and len(w) > 2 and all(ch in "01234567" for ch in w[2:]):
        return int(w[2:], 8)
    if low == "0x" and len(w) > 3 and all(ch in "0123456789abcdefABCDEF" for ch in w[2:]):   # two digits at least
        return int(w[2:], 16)
    if all(ch in "0123456789" for ch in w):
        return int(w, 10)
    raise Reject("literal " + w)


def sig_valid(sig):
    import re
    return re.fullmatch(r"[A-Za-z_][A-Za-z0-9_]*\(([A-Za-z][A-Za-z0-9]*)?(,[A-Za-z][A-Za-z0-9]*)*\)", sig) is not None


class EvalError(Exception):
    def __init__(self, kind, arg=None):
        self.kind, self.arg = kind, arg


def tdiv(a, b):
    q = abs(a) // abs(b)
    return q if (a < 0) == (b < 0) else -q


def py_eval(e, env):
    k = e[0]
    if k == "num":
        return e[1]
    if k == "label":
        if e[1] not in env:
            raise EvalError("label", e[1])
        return env[e[1]]
    a = py_eval(e[1], env)
    b = py_eval(e[2], env)
    if k == "+":
        return a + b
    if k == "-":
        return a - b
    if k == "*":
        return a * b
    if b == 0:
        raise EvalError("div0")
    return tdiv(a, b)


def py_labels(e):
    if e[0] == "label":
        return [e[1]]
    if e[0] == "num":
        return []
    return py_labels(e[1]) + py_labels(e[2])


NAMES = {"+": "Plus", "-": "Minus", "*": "Times", "/": "Divide"}


def py_debug(e):
    if e[0] == "num":
        return f"Expression::Terminal(Terminal::Number({e[1]}))"
    if e[0] == "label":
        return f"Expression::Terminal(Terminal::Label({e[1]}))"
    return f"Expression::{NAMES[e[0]]}({py_debug(e[1])}, {py_debug(e[2])})"


# ------------------------------------------------------------------ generator
OPS = {"+": "OpPlus", "-": "OpMinus", "*": "OpTimes", "/": "OpDivide"}
PREC = {"+": 1, "-": 1, "*": 2, "/": 2}


def rand_nat(rng):
    r = rng.random()
    if r < 0.40:
        return rng.randrange(0, 20)
    if r < 0.60:
        return rng.randrange(0, 1 << 16)
    if r < 0.75:
        k = rng.randrange(0, 34)
        return max(0, 256 ** k + rng.choice([-2, -1, 0, 1]))
    if r < 0.90:
        return rng.getrandbits(rng.choice([8, 31, 64, 128, 200, 255, 256, 257, 300]))
    if r < 0.96:
        return rng.randrange(0, 10 ** rng.randrange(60, 301))
    return 0


def lit_text(rng, n):
    radix = rng.choice([2, 8, 10, 10, 16, 16])
    zeros = "0" * rng.choice([0, 0, 0, 1, 3])
    if radix == 2:
        return "0b" + zeros + format(n, "b")
    if radix == 8:
        return "0o" + zeros + format(n, "o")
    if radix == 10:
        return zeros + str(n)
    h = format(n, "x")
    h = "".join(ch.upper() if rng.random() < 0.4 else ch for ch in h)
    h = zeros + h
    if len(h) < 2:
        h = "0" + h
    return "0x" + h


def rand_sig(rng):
    alpha = "abcdefghijklmnopqrstuvwxyzABCDEFGHIJKLMNOPQRSTUVWXYZ"
    alnum = alpha + "0123456789"
    name = rng.choice(alpha + "_") + "".join(rng.choice(alnum + "_") for _ in range(rng.randrange(0, 12)))
    types = ["address", "uint256", "bool", "bytes32", "uint8", "int128", "string", "bytes", "a", "Z9"]
    nparams = rng.choice([0, 1, 1, 2, 2, 3, 6])
    if rng.random() < 0.08:
        nparams = rng.randrange(18, 40)        # longer than one 136-byte block
    return name + "(" + ",".join(rng.choice(types) for _ in range(nparams)) + ")"


def gen_tree(rng, depth, labels):
    """tree: ('lit', text) | ('neg', text) | ('label', name) | ('sel', sig) | ('topic', sig) | (op, a, b) | ('paren', t)"""
    if depth <= 0 or rng.random() < 0.22:
        r = rng.random()
        if r < 0.13:
            zeros = "0" * rng.choice([0, 0, 1, 2])
            return ("neg", "-" + zeros + str(rand_nat(rng)))
        if r < 0.30 and labels:
            return ("label", rng.choice(labels))
        if r < 0.36:
            return (rng.choice(["sel", "topic"]), rand_sig(rng))
        return ("lit", lit_text(rng, rand_nat(rng)))
    op = rng.choice("++--**//")
    return (op, gen_tree(rng, depth - 1, labels), gen_tree(rng, depth - 1, labels))


def tree_prec(t):
    return PREC.get(t[0], 3)


def to_tokens(rng, t, redundant):
    """token list (nested lists for parenthesised groups) that reads back as exactly the tree t under
    the textbook grammar: parentheses where precedence / left associativity need them, plus random
    redundant ones."""
    k = t[0]
    if k in PREC:
        p = PREC[k]
        left = to_tokens(rng, t[1], redundant)
        right = to_tokens(rng, t[2], redundant)
        if tree_prec(t[1]) < p:
            left = [("paren", left)]
        if tree_prec(t[2]) <= p:
            right = [("paren", right)]
        out = left + [("op", k)] + right
    else:
        out = [t]
    while redundant and rng.random() < 0.18:
        out = [("paren", out)]
    return out


def tok_text(tok):
    k = tok[0]
    if k in ("lit", "neg", "label"):
        return tok[1]
    if k == "sel":
        return 'selector("' + tok[1] + '")'
    if k == "topic":
        return 'topic("' + tok[1] + '")'
    if k == "op":
        return tok[1]
    raise AssertionError(k)


def blanks(rng, style):
    if style == "none":
        return ""
    if style == "one":
        return " "
    return "".join(rng.choice(" \t") for _ in range(rng.choice([0, 0, 1, 1, 2, 3])))


def wordy(ch):
    return ch.isalnum() or ch == "_"


def print_tokens(rng, toks, style, top=True):
    """text of a token list; blanks may go between any two tokens and inside parentheses.
    Forced blanks: between two adjacent word-like tokens, and after a '-' that does not follow a term
    (so that an operator token is never read as the sign of a negative literal)."""
    out = ""
    for idx, tok in enumerate(toks):
        if tok[0] == "paren":
            piece = "(" + blanks(rng, style) + print_tokens(rng, tok[1], style, False) + blanks(rng, style) + ")"
        else:
            piece = tok_text(tok)
        sep = blanks(rng, style) if idx > 0 else ""
        if out and piece and wordy(out[-1]) and wordy(piece[0]) and not sep:
            sep = " "
        minus_not_after_term = idx >= 1 and toks[idx - 1] == ("op", "-") and (idx == 1 or toks[idx - 2][0] == "op")
        if minus_not_after_term and piece[:1].isdigit() and not sep:
            sep = " "
        out += sep + piece
    return out


def coq_tok(tok):
    k = tok[0]
    if k == "lit":
        return f"SLit {coq_str(tok[1])}"
    if k == "neg":
        return f"SNeg {coq_str(tok[1])}"
    if k == "label":
        return f"SLabel {coq_str(tok[1])}"
    if k == "sel":
        return f"SSelector {coq_str(tok[1])}"
    if k == "topic":
        return f"STopic {coq_str(tok[1])}"
    if k == "op":
        return f"SOp {OPS[tok[1]]}"
    return "SParen " + coq_toks(tok[1])


def coq_toks(toks):
    return "[" + "; ".join(coq_tok(t) for t in toks) + "]"


def coq_items(items):
    return "[" + "; ".join("PPc" if it == "pc" else f"PLabel {coq_str(it)}" for it in items) + "]"


LABEL_POOL = ["a", "b", "lbl", "x1", "Zq", "end_1", "pc", "push1", "jumpdest_", "selector", "topic", "stop"]


def rand_items(rng, labels):
    items = ["pc"] * rng.choice([0, 0, 1, 2, 3, 7])
    for l in labels:
        items.insert(rng.randrange(0, len(items) + 1), l)
    return items


def make_program(rng, toks, before, after, style):
    """source text of the program and the expected label positions"""
    sep = rng.choice(["\n", "\n", "\n", ";", " ;\t", "\n\n"])
    lines = []
    pos = 0
    env = {}
    for it in before:
        if it == "pc":
            lines.append("pc")
            pos += 1
        else:
            lines.append(it + ":")
            env[it] = pos
    lines.append("push32 " + print_tokens(rng, toks, style) + (blanks(rng, style) if style != "none" else ""))
    pos += 33
    for it in after:
        if it == "pc":
            lines.append("pc")
            pos += 1
        else:
            lines.append(it + ":")
            env[it] = pos
    return sep.join(lines), env


def build_case(rng, toks, before, after, style, cat):
    src, env = make_program(rng, toks, before, after, style)
    h = src.encode().hex()
    operand = coq_toks(toks)
    base = dict(src=src, env=env, before=before, after=after, cat0=cat)
    c1 = dict(base, req="asm " + h, coq=f"run_parse_eval {coq_items(before)} {operand} {coq_items(after)}", cat=cat + "/value", kind="asm")
    c2 = dict(base, req="expr_debug " + h, coq=f"run_tree {operand}", cat=cat + "/tree", kind="tree")
    return [c1, c2]


def gen_valid(rng):
    nlab = rng.choice([0, 0, 0, 1, 2, 3])
    names = rng.sample(LABEL_POOL, nlab)
    r = rng.random()
    if r < 0.45:
        bl, al = names, []
    elif r < 0.9:
        bl, al = [], names
    else:   # labels on both sides
        bl, al = names[:len(names) // 2], names[len(names) // 2:]
    before, after = rand_items(rng, bl), rand_items(rng, al)
    usable = list(names)
    if rng.random() < 0.04:
        usable.append("nowhere")          # a label that is never declared
    depth = rng.choice([0, 1, 2, 2, 3, 3, 4, 5])
    tree = gen_tree(rng, depth, usable)
    toks = to_tokens(rng, tree, rng.random() < 0.5)
    style = rng.choice(["none", "one", "rand", "rand"])
    return toks, before, after, style


DIRECTED = [
    "5+-10+20", "1000+-256", "-0", "-00", "0--1", "1--1", "1 - -1", "-5+7", "-300+0x012c", "-12345678901234567890+12345678901234567891",
    "7/2", "7/-2", "-7/2", "-7/-2+10", "(0-7)/2+4", "0-7/2+4", "1/0", "0/0", "5/(3-3)", "0/5", "(1-2)/(3-4)",
    "2-3-4+10", "2-(3-4)", "100/7/2", "100/(7/2)", "2*3/4*5", "2+3*4-5/6", "1+2*3", "(1+2)*3", "2*(3+4)*5", "1-2*3+40",
    "0b101+0o17+0xfF+09", "0x00", "0b0", "0o0", "00", "0xABCDEF", "0xabcdef",
    "115792089237316195423570985008687907853269984665640564039457584007913129639935",
    "115792089237316195423570985008687907853269984665640564039457584007913129639936",
    "115792089237316195423570985008687907853269984665640564039457584007913129639935+1",
    "115792089237316195423570985008687907853269984665640564039457584007913129639936-1",
    "0xffffffffffffffffffffffffffffffffffffffffffffffffffffffffffffffff",
    "0x010000000000000000000000000000000000000000000000000000000000000000/256*255",
    "340282366920938463463374607431768211456*340282366920938463463374607431768211456",
    "340282366920938463463374607431768211456*340282366920938463463374607431768211456-1",
    "(((((1)))))", "((1+2))*((3))", "selector(\"transfer(address,uint256)\")", "topic(\"transfer(address,uint256)\")",
    "selector(\"f()\")*2+1", "topic(\"Transfer(address,address,uint256)\")/0x0100", "selector(\"_(,a)\")",
]


def tokens_from_text(expr):
    """cut a directed expression text into the token structure handed to the model (generator side, not the oracle):
    blanks dropped, maximal alphanumeric runs, '-' directly before a digit in term position is a sign."""
    toks_stack = [[]]
    i = 0
    term_pos = True
    while i < len(expr):
        c = expr[i]
        if c in " \t":
            i += 1
            continue
        if c == "(":
            toks_stack.append([])
            i += 1
            term_pos = True
            continue
        if c == ")":
            inner = toks_stack.pop()
            toks_stack[-1].append(("paren", inner))
            i += 1
            term_pos = False
            continue
        for kw, kind in (('selector("', "sel"), ('topic("', "topic")):
            if expr.startswith(kw, i):
                j = expr.index('")', i)
                toks_stack[-1].append((kind, expr[i + len(kw):j]))
                i = j + 2
                term_pos = False
                break
        else:
            if c == "-" and term_pos and i + 1 < len(expr) and expr[i + 1].isdigit():
                j = i + 1
                while j < len(expr) and expr[j].isalnum():
                    j += 1
                toks_stack[-1].append(("neg", expr[i:j]))
                i = j
                term_pos = False
            elif c in "+-*/":
                toks_stack[-1].append(("op", c))
                i += 1
                term_pos = True
            else:
                j = i
                while j < len(expr) and (expr[j].isalnum() or expr[j] == "_"):
                    j += 1
                assert j > i, expr
                w = expr[i:j]
                toks_stack[-1].append(("lit", w) if w[0].isdigit() else ("label", w))
                i = j
                term_pos = False
    assert len(toks_stack) == 1
    return toks_stack[0]


class Verbatim:
    """rng stand-in that makes print_tokens reproduce minimal spacing"""
    def choice(self, seq):
        return seq[0]

    def random(self):
        return 1.0


MALFORMED = [
    # (token structure, text) -- text written by hand, blanks matter
    ([("lit", "0x1")], "0x1"), ([("lit", "0x")], "0x"), ([("lit", "0xg1")], "0xg1"), ([("lit", "0b2")], "0b2"),
    ([("lit", "0b102")], "0b102"), ([("lit", "0o8")], "0o8"), ([("lit", "0o")], "0o"), ([("lit", "12ab")], "12ab"),
    ([("lit", "0X10")], "0X10"), ([("lit", "0B1")], "0B1"), ([("lit", "1_000")], None),
    ([("neg", "-5a")], "-5a"), ([("lit", "1"), ("op", "+")], "1+"), ([("op", "+"), ("lit", "1")], "+1"),
    ([("op", "*"), ("lit", "1")], "*1"), ([("lit", "1"), ("lit", "2")], "1 2"), ([("lit", "1"), ("op", "+"), ("op", "+"), ("lit", "2")], "1++2"),
    ([("lit", "1"), ("op", "+"), ("op", "-"), ("lit", "2")], "1+- 2"), ([("op", "-"), ("lit", "2")], "- 2"),
    ([("paren", [])], "()"), ([("lit", "1"), ("op", "+"), ("paren", [])], "1+()"),
    ([("paren", [("lit", "1"), ("op", "/")])], "(1/)"), ([("paren", [("lit", "1")]), ("paren", [("lit", "2")])], "(1)(2)"),
    ([("lit", "1"), ("paren", [("lit", "2")])], "1(2)"), ([("lit", "1"), ("label", "a")], "1 a"),
    ([("sel", "f( )")], 'selector("f( )")'), ([("sel", "f(uint256[])")], 'selector("f(uint256[])")'),
    ([("topic", "f(a,)")], 'topic("f(a,)")'), ([("sel", "1f()")], 'selector("1f()")'), ([("topic", "f")], 'topic("f")'),
    ([("lit", "0x1"), ("op", "+"), ("lit", "2")], "0x1+2"), ([("lit", "2"), ("op", "*"), ("lit", "0b")], "2*0b"),
]


def oracle(case_asm, case_tree):
    """Evaluate the property on the implementation's answers.  Returns (problems, notes)."""
    src, env = case_asm["src"], case_asm["env"]
    impl_v, impl_t = case_asm["impl"] or "", case_tree["impl"] or ""
    problems, notes = [], []
    line = [l for l in src.replace(";", "\n").split("\n") if l.strip().startswith("push32")][0].strip()
    text = line[len("push32 "):]
    nb = sum(1 for it in case_asm["before"] if it == "pc")
    na = sum(1 for it in case_asm["after"] if it == "pc")
    try:
        if line[len("push32"):len("push32") + 1] not in (" ", "\t") or text[:1] in (" ", "\t"):
            raise Reject("push needs exactly one blank")
        tree = PyParser(text).whole()
    except Reject as r:
        if impl_v.startswith("ok:") or impl_t.startswith("ok:"):
            problems.append(f"source that the grammar does not admit ({r}) was accepted: asm={impl_v} tree={impl_t}")
        return problems, notes
    labels = py_labels(tree)
    declared = [it for it in case_asm["before"] + case_asm["after"] if it != "pc"]
    if len(set(declared)) != len(declared):
        if impl_v.startswith("ok:"):
            problems.append(f"duplicate label accepted: {impl_v}")
        return problems, notes
    # value under the textbook semantics
    try:
        v = py_eval(tree, env)
        verdict = "neg" if v < 0 else ("big" if v >= TWO256 else "ok")
    except EvalError as ex:
        v, verdict = None, ex.kind
    # tree shape
    if impl_t.startswith("ok:"):
        if impl_t[3:] != py_debug(tree):
            problems.append(f"syntax tree differs from the textbook reading: got {impl_t[3:]} expected {py_debug(tree)}")
    elif not (impl_t.startswith("err:Parse.ImmediateTooLarge") and not labels and verdict == "big"):
        problems.append(f"operand was not parsed: {impl_t}")
    # value
    if verdict == "ok":
        want = "ok:" + "58" * nb + "7f" + v.to_bytes(32, "big").hex() + "58" * na
        if impl_v != want:
            problems.append(f"value {v}: expected {want}, got {impl_v}")
    else:
        if impl_v.startswith("ok:"):
            problems.append(f"operand is {verdict} ({v}) but bytes were produced: {impl_v}")
        elif not impl_v.startswith("err:"):
            problems.append(f"operand is {verdict} ({v}): expected an error value, got {impl_v}")
    return problems, notes


def check(run):
    rng = run.rng
    proof_ok = run.prove()
    ok, out, dt = common.build_harness(False)
    if not ok:
        run.violation_unproved("harness-build", out)
        return run.finish(trusted=TRUSTED)
    thorough = run.tier == "thorough"
    cases = []
    # directed expressions, each minimal and with blanks
    for expr in DIRECTED:
        toks = tokens_from_text(expr)
        for style in (["none", "rand"] if not thorough else ["none", "one", "rand", "rand"]):
            cases += build_case(rng, toks, [], [], style, "directed")
    # labels: before / after, small known positions
    for expr, before, after in [
        ("a*3", ["pc", "a", "pc"], []), ("a*3", ["pc"], ["pc", "a"]), ("a-3", ["pc"], ["pc", "a"]), ("a-50", [], ["a"]),
        ("a-50", ["a"], []), ("b", ["pc"], ["pc", "a"]), ("a+b", ["a", "pc"], ["pc", "b"]), ("b+a", ["a", "pc"], ["pc", "b"]),
        ("a+b", [], ["pc", "a", "pc", "b"]), ("(b-a)*(b-a)/2", ["a", "pc", "pc", "pc", "b"], []), ("a/0", [], ["a"]), ("1/0+a", [], ["a"]),
        ("a/(a-a)", ["pc", "a"], []), ("1/a", ["a"], []), ("1/a", ["pc", "pc", "a"], []), ("7/(a-b)", ["a", "pc", "pc", "b"], []),
        ("a+115792089237316195423570985008687907853269984665640564039457584007913129639936", ["a"], []),
        ("a+115792089237316195423570985008687907853269984665640564039457584007913129639936", [], ["a"]),
        ("a+115792089237316195423570985008687907853269984665640564039457584007913129639935", ["a"], []),
        ("a+115792089237316195423570985008687907853269984665640564039457584007913129639935", ["pc", "a"], []),
        ("nowhere+1", [], []), ("1+nowhere", ["a"], []), ("a", ["a"], ["a"]), ("pc+push1", ["pc", "pc", "pc"], ["pc", "push1"]),
    ]:
        cases += build_case(rng, tokens_from_text(expr), before, after, "none", "labels-directed")
    # malformed token streams
    for toks, text in MALFORMED:
        if text is None:
            continue
        src = "push32 " + text
        h = src.encode().hex()
        base = dict(src=src, env={}, before=[], after=[], cat0="malformed")
        cases.append(dict(base, req="asm " + h, coq=f"run_parse_eval [] {coq_toks(toks)} []", cat="malformed/value", kind="asm"))
        cases.append(dict(base, req="expr_debug " + h, coq=f"run_tree {coq_toks(toks)}", cat="malformed/tree", kind="tree"))
    # exhaustive: every sequence of up to 3 (thorough: 5) operators between fixed operands, and each of these with
    # one parenthesised pair of neighbours
    import itertools
    operands = ["97", "-7", "0x0d", "5", "0b11", "2"]
    for nops in range(1, 6 if thorough else 4):
        for ops in itertools.product("+-*/", repeat=nops):
            toks = [("neg" if operands[0].startswith("-") else "lit", operands[0])]
            for k, o in enumerate(ops):
                w = operands[k + 1]
                toks += [("op", o), ("neg" if w.startswith("-") else "lit", w)]
            cases += build_case(rng, toks, [], [], "none", "exhaustive-ops")
            j = rng.randrange(0, nops)      # parenthesise operands j and j+1
            grouped = toks[:2 * j] + [("paren", toks[2 * j:2 * j + 3])] + toks[2 * j + 3:]
            cases += build_case(rng, grouped, [], [], "rand", "exhaustive-ops-paren")
    # random trees
    n = 9000 if thorough else 900
    for _ in range(n):
        toks, before, after, style = gen_valid(rng)
        cases += build_case(rng, toks, before, after, style, "random")
    # keccak: random signatures alone (selector and topic), incl. longer than one block
    for _ in range(1200 if thorough else 120):
        sig = rand_sig(rng)
        kind = rng.choice(["sel", "topic"])
        cases += build_case(rng, [(kind, sig)], [], [], "none", "keccak")

    # in batches: each model shard then writes less than a pipe buffer, so the shards really run in parallel
    dis = []
    batch = 1600
    for k in range(0, len(cases), batch):
        dis += common.correspond(run, cases[k:k + batch], IMPORTS, tag=f"c08b{k // batch}", timeout=900)
    run.corr["rule"] = ("programs (pc|label:)* push32 <expr> (pc|label:)*; expr = random trees (depth<=5) over literals of all radices up to 300 digits, "
                        "negative literals, labels before/after, selector/topic, printed with minimal or redundant parentheses and random blanks; "
                        "directed boundary expressions; malformed token streams; each source compared as value (asm) and as tree (expr_debug); "
                        "distinct = distinct request lines")
    # refine the distribution by outcome class of the implementation
    for c in cases:
        if c["kind"] == "asm":
            a = c["impl"] or ""
            cls = "ok" if a.startswith("ok:") else (a.split("(")[0] if a.startswith("err:") else a.split(":")[0])
            key = "outcome:" + cls
            run.corr["distribution"][key] = run.corr["distribution"].get(key, 0) + 1
    # property oracle
    found = 0
    for i in range(0, len(cases), 2):
        ca, ct = cases[i], cases[i + 1]
        assert ca["kind"] == "asm" and ct["kind"] == "tree" and ca["src"] == ct["src"]
        problems, notes = oracle(ca, ct)
        run.notes.extend(notes[:1])
        if problems:
            found += 1
            if found <= 3:
                run.violation(dict(property="C08", source=ca["src"], asm=ca["impl"], tree=ct["impl"], problems=problems,
                                   replay=f"printf '%s\\n%s\\n' '{ca['req']}' '{ct['req']}' | .cache/target/debug/etk-vh"))
    if (not proof_ok or dis) and not found:
        if dis:
            d = dis[0]
            run.log(f"DISAGREE {d['req']} ({d['src']!r}): impl={d['impl']!r} model={d['model']!r}")
            run.violation_unproved("correspondence Model/Parse.v vs etk-asm parser/assembler",
                                   dict(source=d["src"], request=d["req"], impl=d["impl"], model=d["model"], n=len(dis)))
        else:
            run.violation_unproved("theorems of Props/C08.v", run.proof["log"])
    return run.finish(trusted=TRUSTED)


def replay(obj):
    print(obj)
    if "replay" in obj:
        rc, out = common.sh(obj["replay"], cwd=common.VERIF)
        print(out)
    return 0
