"""C18 -- includes and imports cannot read outside the project root."""
import os

from lib import common, asmgen as G, fstree
from lib.fstree import Tree

IMPORTS = fstree.PREAMBLE

TRUSTED = [
    "Coq 8.16.1 kernel incl. vm_compute; axioms: none",
    "Model/Path.v: THE OPERATING SYSTEM IS MODELLED (tree of Dir/File/Link, realpath-style walk, `..` physical, 40-link ELOOP limit). "
    "Assumed, not proved: std::fs::canonicalize (used by Root::check), File::open / read_to_string (used for the read that follows, on the "
    "UN-canonicalized candidate path) and Path::metadata resolve a path the same way; the tree and the current directory do not change "
    "between the check and the read nor during the run; no permission / encoding errors",
    "Model/Ingest.v: hand-written model of Root::{new,check}, Program::{push_path,resolve_path}, Ingest::{ingest_file,ingest,preprocess,resolve_and_ingest}; "
    "the ghost log of reads is not observable in the implementation (canary bytes stand in for it); tied to the code by differential runs on trees on disk",
    "parsing (pest) is not modelled: a file's content in the model is the python AST it was printed from",
    "harness crate etk-vh (asm_file, asm_file_cwd, asm_at_cwd) and python driver; the python oracle resolves paths with os.path.realpath / os.path.exists",
]

KINDS = ["import", "include", "include_hex"]
EXT = {"import": "etk", "include": "etk", "include_hex": "hex"}


def build_layout(t, top, rng):
    """<top>/proj = the project; <top>/outside, <top>/proj2 = outside, holding canaries.
    Returns the canary byte strings."""
    proj = os.path.join(top, "proj")
    canary = bytes(rng.randrange(1, 256) for _ in range(32))
    inner = bytes([0x7F]) + bytes(rng.randrange(1, 256) for _ in range(32))     # push32 <marker>: inside, allowed
    csrc = [("op", "push32", ("num", int.from_bytes(canary, "big"), 16))]
    isrc = [("op", "push32", ("num", int.from_bytes(inner[1:], "big"), 16))]
    for d in ("outside", "proj2", "outside/deep"):
        t.write_src(os.path.join(top, d, "secret.etk"), csrc)
        t.write_text(os.path.join(top, d, "secret.hex"), canary.hex() + "\n")
    t.write_src(os.path.join(proj, "sub", "inner.etk"), isrc)
    t.write_text(os.path.join(proj, "sub", "inner.hex"), inner.hex())
    t.write_src(os.path.join(proj, "top.etk"), isrc)
    t.write_text(os.path.join(proj, "top.hex"), inner.hex())
    t.mkdir(os.path.join(proj, "sub", "deep"))
    # links pointing outside
    for x in ("etk", "hex"):
        t.symlink(os.path.join(proj, f"flink.{x}"), f"../outside/secret.{x}")
        t.symlink(os.path.join(proj, "sub", f"flink2.{x}"), f"{top}/proj2/secret.{x}")
        t.symlink(os.path.join(proj, f"in_link.{x}"), f"sub/inner.{x}")                 # inside
        t.symlink(os.path.join(top, "outside", f"back.{x}"), f"../proj/sub/inner.{x}")  # from outside back inside
        t.symlink(os.path.join(proj, f"hop.{x}"), f"dlink/secret.{x}")                  # link through a link, outside
    t.symlink(os.path.join(proj, "dlink"), "../outside")
    t.symlink(os.path.join(proj, "abs_dlink"), os.path.join(top, "outside"))
    t.symlink(os.path.join(proj, "sub", "up"), "..")                # -> proj (inside)
    t.symlink(os.path.join(proj, "sub", "upup"), "../..")           # -> top (outside)
    t.symlink(os.path.join(proj, "in_dlink"), "sub/")               # inside, trailing slash
    t.symlink(os.path.join(top, "via"), "proj")                     # the root reached through a link
    t.symlink(os.path.join(top, "via2"), "via")
    t.symlink(os.path.join(proj, "dangling"), "nowhere")
    t.symlink(os.path.join(proj, "loop"), "loop")
    return canary, inner


OUTSIDE_ARGS = [
    "../outside/secret.X", "{top}/outside/secret.X", "flink.X", "dlink/secret.X", "abs_dlink/secret.X", "hop.X",
    "sub/../../outside/secret.X", "sub/upup/outside/secret.X", "../proj2/secret.X", "./../outside/secret.X",
    "sub/up/../outside/secret.X", "sub/flink2.X", "dlink/deep/secret.X", "sub/deep/../../../proj2/secret.X",
    "dlink/../proj2/secret.X", "{top}/via/../outside/secret.X", "../proj/../outside//secret.X", "{top}/proj2/secret.X",
]
INSIDE_ARGS = [
    "sub/inner.X", "in_link.X", "sub/up/sub/inner.X", "../proj/sub/inner.X", "{top}/proj/sub/inner.X", "../via/sub/inner.X",
    "../outside/back.X", "in_dlink/inner.X", "dlink/../proj/top.X", "sub/./deep/../inner.X", "{top}/via2/top.X", "sub//inner.X",
]
MISSING_ARGS = [
    "../outside/nothing.X", "nothing.X", "dangling", "loop", "dangling/x.X", "sub/inner.X/", "sub/inner.X/..", "top.X/../top.X",
    "{top}/nowhere/secret.X", "sub/deep/../../../../../../../../../../nope.X",
]


def fill(arg, kind, top):
    return arg.replace("{top}", top).replace("X", EXT[kind])


def rebase(arg, top, hops):
    """The same target named from a file `hops` directories below proj (proj/sub, proj/sub/deep)."""
    if arg.startswith("{top}") or arg.startswith("/"):
        return arg
    return "../" * hops + arg


# ---------------------------------------------------------------- python reference of the property
def py_reference(t, index, main, cwd):
    """First failure in execution order, deciding each directive with the REAL file system:
    'traversal' when the target exists and its real path is not under the real path of the root,
    'io' when it does not resolve, 'ok' when every directive stays inside.  (Hex contents and
    sources are valid in these trees, so nothing else can fail.)"""
    rootdir = os.path.join(cwd, os.path.dirname(main))
    root_rp = os.path.realpath(rootdir)

    def run(cur, depth):
        prog, _ = index[os.path.realpath(os.path.join(cwd, cur))]
        for o in prog:
            if o[0] not in KINDS:
                continue
            if depth > 255 and o[0] != "include_hex":
                return "limit"
            cand = os.path.join(os.path.dirname(cur), o[1])
            full = os.path.join(cwd, cand)
            if cand == "" or not os.path.exists(full):
                return "io"
            rp = os.path.realpath(full)
            if not (rp == root_rp or rp.startswith(root_rp.rstrip("/") + "/")):
                return "traversal"
            if os.path.isdir(full):
                return "io"
            if o[0] != "include_hex":
                r = run(cand, depth + 1)
                if r != "ok":
                    return r
        return "ok"
    return run(main, 1)


def classify(answer):
    if answer.startswith("ok:"):
        return "ok"
    if answer.startswith("err:DirectoryTraversal()"):
        return "traversal"
    if answer.startswith("err:Io("):
        return "io"
    if answer.startswith("err:RecursionLimit()"):
        return "limit"
    return answer[:40]


def check(run):
    rng = run.rng
    proof_ok = run.prove()
    ok, out, dt = common.build_harness(False)
    if not ok:
        run.violation_unproved("harness-build", out)
        return run.finish(trusted=TRUSTED)
    t = Tree()
    try:
        return _check(run, rng, proof_ok, t)
    finally:
        t.cleanup()


def canary_allowed(c):
    """Ingest::ingest on a virtual top-level path: the root is the directory of that path if it exists
    (e.g. the current directory for `virtual.etk`, `/` for `/virtual.etk`); the secret files of the layout
    are legitimately readable when they lie under it."""
    if "virtual" not in c:
        return False
    d = os.path.dirname(os.path.join(c["cwd"], c["main"])) or c["cwd"]
    if not os.path.isdir(d):
        return False
    root = os.path.realpath(d)
    secret_dirs = [os.path.realpath(os.path.join(c["top"], x)) for x in ("outside", "proj2", "outside/deep")]
    return all(sd == root or sd.startswith(root.rstrip("/") + "/") for sd in secret_dirs)


def _check(run, rng, proof_ok, t):
    cases = []
    nrand = 900 if run.tier == "thorough" else 260
    pre_ops = [("op", "push1", ("num", 0xAA)), ("label", "s"), ("op", "jumpdest", None), ("push", ("lbl", "s"))]
    post_ops = [("label", "e"), ("op", "jumpdest", None), ("op", "push2", ("lbl", "e")), ("op", "push1", ("num", 0xBB))]

    def add(top, main, cwd, cat, canary, inner, asm_at_prog=None):
        """main: path as handed to the assembler (absolute, or relative to cwd)."""
        c = dict(top=top, main=main, cwd=cwd, cat=cat, canary=canary, inner=inner)
        fs = t.fs_coq(top, cwd=cwd)
        if asm_at_prog is not None:
            c["req"] = "asm_at_cwd " + cwd.encode().hex() + " " + (main.encode().hex() or "-") + " " + G.prog_src(asm_at_prog).encode().hex()
            c["coq"] = f"run_ingest_src {fs} {G.cs(main)} {G.nodes_coq(asm_at_prog)}"
            c["virtual"] = asm_at_prog
        elif os.path.isabs(main) and rng.random() < 0.5:
            c["req"] = "asm_file " + main.encode().hex()
            c["coq"] = f"run_ingest {fs} {G.cs(main)}"
        else:
            c["req"] = "asm_file_cwd " + cwd.encode().hex() + " " + main.encode().hex()
            c["coq"] = f"run_ingest {fs} {G.cs(main)}"
        cases.append(c)

    def main_styles(top):
        proj = os.path.join(top, "proj")
        return [(proj + "/main.etk", top), (top + "/via/main.etk", top), (top + "/via2/main.etk", proj), ("proj/main.etk", top),
                ("main.etk", proj), ("./main.etk", proj), ("../main.etk", proj + "/sub"), ("via/main.etk", top),
                ("../proj/main.etk", top + "/outside"), ("sub/up/main.etk", proj), (proj + "/sub/../main.etk", top)]

    for i in range(nrand):
        top = t.p(f"c{i}")
        proj = os.path.join(top, "proj")
        canary, inner = build_layout(t, top, rng)
        kind = rng.choice(KINDS)
        r = rng.random()
        if r < 0.5:
            arg, cat = rng.choice(OUTSIDE_ARGS), "outside"
        elif r < 0.8:
            arg, cat = rng.choice(INSIDE_ARGS), "inside"
        else:
            arg, cat = rng.choice(MISSING_ARGS), "missing"
        nest = rng.choice([0, 0, 1, 1, 2])
        directive = (kind, fill(rebase(arg, top, nest), kind, top))
        body = (pre_ops if rng.random() < 0.7 else []) + [directive] + (post_ops if rng.random() < 0.7 else [])
        if rng.random() < 0.3:       # something harmless and allowed first
            body = [("include_hex", "../" * nest + "top.hex")] + body
        # the directive sits in main (nest 0), in proj/sub/mid.etk (1) or in proj/sub/deep/low.etk (2)
        if nest == 0:
            t.write_src(proj + "/main.etk", body)
        elif nest == 1:
            t.write_src(proj + "/sub/mid.etk", body)
            t.write_src(proj + "/main.etk", [("op", "gas", None), (rng.choice(["import", "include"]), rng.choice(["sub/mid.etk", "in_dlink/mid.etk", "./sub/up/sub/mid.etk"]))])
        else:
            t.write_src(proj + "/sub/deep/low.etk", body)
            t.write_src(proj + "/sub/mid.etk", [(rng.choice(["import", "include"]), "deep/low.etk"), ("op", "caller", None)])
            t.write_src(proj + "/main.etk", [(rng.choice(["import", "include"]), "sub/mid.etk")])
        # note: when mid.etk is reached through a link (in_dlink/, sub/up/sub/) the lexical directory of the
        # nested file differs from its real one; `..` is resolved by the OS after following the link
        main, cwd = rng.choice(main_styles(top))
        add(top, main, cwd, f"{cat}/nest{nest}", canary, inner)

    # ---- designed: a root that is a subdirectory; the top-level file itself a link; link chains; bad roots
    k = [0]

    def fresh():
        k[0] += 1
        top = t.p(f"d{k[0]}")
        canary, inner = build_layout(t, top, rng)
        return top, os.path.join(top, "proj"), canary, inner

    for kind in KINDS:
        x = EXT[kind]
        top, proj, canary, inner = fresh()      # root = proj/sub: the rest of proj is outside
        t.write_src(proj + "/sub/main.etk", [(kind, f"../top.{x}")])
        add(top, proj + "/sub/main.etk", top, "subdir-root", canary, inner)
        top, proj, canary, inner = fresh()
        t.write_src(proj + "/sub/main.etk", [(kind, f"up/sub/inner.{x}"), (kind, f"deep/../inner.{x}")])
        add(top, "sub/main.etk", proj, "subdir-root", canary, inner)
        top, proj, canary, inner = fresh()      # top-level file is a link to a file outside; its directives are relative to the link
        t.write_src(top + "/outside/m.etk", [(kind, f"sub/inner.{x}"), (kind, f"secret.{x}")])
        t.symlink(proj + "/main.etk", "../outside/m.etk")
        add(top, proj + "/main.etk", top, "main-is-link", canary, inner)
        top, proj, canary, inner = fresh()
        t.write_src(top + "/outside/m.etk", [(kind, f"sub/inner.{x}"), (kind, f"../outside/secret.{x}")])
        t.symlink(proj + "/main.etk", "../outside/m.etk")
        add(top, "main.etk", proj, "main-is-link", canary, inner)
        for n in (39, 40, 41):                  # chains of links: 40 are followed, the 41st is ELOOP
            top, proj, canary, inner = fresh()
            for j in range(n):
                t.symlink(proj + f"/chain/l{j}", f"l{j + 1}" if j + 1 < n else f"../sub/inner.{x}")
            t.write_src(proj + "/main.etk", [(kind, "chain/l0")])
            add(top, proj + "/main.etk", top, "link-chain", canary, inner)
        top, proj, canary, inner = fresh()      # a chain that ends outside
        for j in range(5):
            t.symlink(proj + f"/chain/l{j}", f"l{j + 1}" if j + 1 < 5 else f"../../outside/secret.{x}")
        t.write_src(proj + "/main.etk", [(kind, "chain/l0")])
        add(top, proj + "/main.etk", top, "link-chain", canary, inner)
        # Ingest::ingest on a path that need not exist: roots that cannot be established
        for vpath in ["", "/", "nonexistent_dir/main.etk", "proj/top.etk/virtual.etk", "dangling/main.etk", "virtual.etk", "proj/virtual.etk", "/virtual.etk"]:
            top, proj, canary, inner = fresh()
            add(top, vpath, top, "virtual-main", canary, inner, asm_at_prog=[("op", "pc", None), (kind, f"proj/sub/inner.{x}"), (kind, f"sub/inner.{x}"), (kind, f"outside/secret.{x}")])
            # absolute arguments: with no usable root nothing may be read at all
            top, proj, canary, inner = fresh()
            add(top, vpath, top, "virtual-main-abs", canary, inner, asm_at_prog=[("op", "pc", None), (kind, f"{top}/outside/secret.{x}")])
            top, proj, canary, inner = fresh()
            add(top, vpath, top, "virtual-main-abs", canary, inner, asm_at_prog=[(kind, f"{top}/proj2/secret.{x}"), ("op", "pc", None)])
    # the SAME argument string used from files of different directories: allowed from one, outside from the other
    # (a cache of verdicts keyed by the written path would let the second one through)
    for kind in KINDS:
        x = EXT[kind]
        for first_inside in (True, False):
            top, proj, canary, inner = fresh()
            # proj/sub/a.etk: `../top.x` -> proj/top.x (inside);  proj/main.etk: `../top.x` -> top/top.x (outside, holds the canary)
            t.write_text(top + f"/top.{x}", open(top + f"/outside/secret.{x}").read())
            t.write_src(proj + "/sub/a.etk", [(kind, f"../top.{x}")])
            body = [("import", "sub/a.etk"), (kind, f"../top.{x}")]
            t.write_src(proj + "/main.etk", body if first_inside else list(reversed(body)))
            add(top, proj + "/main.etk", top, "same-argument-two-directories", canary, inner)
        # same name reached through a symlink in one directory only
        top, proj, canary, inner = fresh()
        if x == "etk":
            t.write_src(proj + "/blob.etk", [("op", "gas", None)])
        else:
            t.write_text(proj + "/blob.hex", "5a")
        t.symlink(proj + f"/sub/blob.{x}", f"../../outside/secret.{x}")
        t.write_src(proj + "/sub/a.etk", [(kind, f"blob.{x}")])
        t.write_src(proj + "/main.etk", [(kind, f"blob.{x}"), ("include", "sub/a.etk")])
        add(top, proj + "/main.etk", top, "same-argument-two-directories", canary, inner)
    top, proj, canary, inner = fresh()
    add(top, "", top, "virtual-main", canary, inner, asm_at_prog=[("op", "pc", None)])

    dis = common.correspond(run, cases, IMPORTS, tag="c18", timeout=900)
    run.corr["rule"] = ("trees on disk: project dir with subdirectories, two outside dirs (one named proj2), file and directory links pointing outside "
                        "(relative, absolute, through another link, chains) and inside (incl. from outside back in), dangling links and loops; "
                        "18 outside / 12 inside / 10 unresolvable argument spellings x {import, include, include_hex} x nesting depth 0-2 x 11 ways of naming "
                        "the top-level file (absolute, through links, relative to several current directories); roots that are subdirectories, top-level "
                        "files that are links, 39/40/41-link chains, Ingest::ingest on virtual paths; the same argument string used from two directories (inside from one, outside from the other, both orders); links and absolute paths to a device node (/dev/null, implementation only); distinct = distinct trees")
    # ---- property oracle
    index = {os.path.realpath(k_): v for k_, v in t.files.items()}
    found = 0
    stats = {}
    for c in cases:
        impl = c["impl"] or ""
        problems = []
        if impl.startswith("panic") or impl.startswith("crash"):
            problems.append("implementation crashed: " + impl[:200])
        if c["canary"].hex() in impl and not canary_allowed(c):
            problems.append("canary bytes of a file outside the root appear in the output")
        if not impl.startswith("ok:") and not impl.endswith(" out=-"):
            problems.append("output was written although assembly failed: " + impl[:200])
        if "virtual" not in c:
            try:
                want = py_reference(t, index, c["main"], c["cwd"])
            except KeyError:
                want = None
            got = classify(impl)
            stats[want] = stats.get(want, 0) + 1
            if want is not None and got != want:
                problems.append(f"expected {want} (decided with os.path.realpath on the real tree), implementation answered {impl[:120]}")
            if want == "ok" and c["cat"].startswith("inside") and c["inner"].hex() not in impl:
                problems.append("the allowed inside file's bytes are missing from the output")
        if problems:
            found += 1
            if found <= 3:
                files = {os.path.relpath(p, c["top"]): txt[:2000] for p, (pr, txt) in t.files.items() if p.startswith(c["top"] + "/")}
                links = {}
                for d, dirs, names in os.walk(c["top"]):
                    for nme in dirs + names:
                        q = os.path.join(d, nme)
                        if os.path.islink(q):
                            links[os.path.relpath(q, c["top"])] = os.readlink(q)
                run.violation(dict(property="C18", main=c["main"], cwd=os.path.relpath(c["cwd"], c["top"]), top=c["top"], files=files, links=links,
                                   impl=impl[:600], problems=problems, request=c["req"][:200]))
    # ---- targets outside the root that are not regular files (a device node; the tree model has only directories,
    # files and links, so these run on the implementation only): whatever the target IS, it lies outside the root
    if os.path.exists("/dev/null"):
        top, proj, canary, inner = fresh()
        os.symlink("/dev/null", os.path.join(proj, "null.etk"))
        os.symlink("/dev/null", os.path.join(proj, "sub", "null.hex"))
        nr = []
        for kind_, arg in (("import", "null.etk"), ("include", "null.etk"), ("include_hex", "sub/null.hex"), ("import", "/dev/null"), ("include", "/dev/null"),
                           ("include_hex", "/dev/null"), ("import", "sub/../null.etk")):
            name = f"nr{len(nr)}.etk"
            t.write_src(os.path.join(proj, name), [("op", "push1", ("num", 1)), (kind_, arg), ("op", "push1", ("num", 2))])
            nr.append((os.path.join(proj, name), kind_, arg))
        t.write_src(os.path.join(proj, "sub", "nrmid.etk"), [("import", "/dev/null")])
        t.write_src(os.path.join(proj, "nrnest.etk"), [("include", "sub/nrmid.etk")])
        nr.append((os.path.join(proj, "nrnest.etk"), "include->import", "/dev/null"))
        nr_ans, _, _ = common.run_harness(["asm_file " + m_.encode().hex() for m_, _, _ in nr], timeout=120)
        for (m_, kind_, arg), a in zip(nr, nr_ans):
            run.corr["cases"] += 1
            run.corr["distribution"]["non-regular-outside"] = run.corr["distribution"].get("non-regular-outside", 0) + 1
            if classify(a or "") != "traversal":
                found += 1
                if found <= 3:
                    run.violation(dict(property="C18", main=m_, top=top, directive=f'%{kind_}("{arg}")', links={"proj/null.etk": "/dev/null", "proj/sub/null.hex": "/dev/null"},
                                       impl=(a or "no answer")[:300], problems=["a device node outside the root was not refused with DirectoryTraversal"],
                                       request="asm_file " + m_.encode().hex()))
    run.notes.append("python reference verdicts: " + ", ".join(f"{k_}={v}" for k_, v in sorted(stats.items(), key=str)))
    if (not proof_ok or dis) and not found:
        if dis:
            d = dis[0]
            files = {os.path.relpath(p, d["top"]): txt[:600] for p, (pr, txt) in t.files.items() if p.startswith(d["top"] + "/")}
            run.log(f"DISAGREE ({len(dis)}) cat={d['cat']} main={d['main']} cwd={d['cwd']}: impl={str(d['impl'])[:200]!r} model={str(d['model'])[:200]!r}")
            run.violation_unproved("correspondence Model/Ingest.v + Model/Path.v vs etk-asm ingest.rs",
                                   dict(main=d["main"], cwd=d["cwd"], files=files, impl=str(d["impl"])[:600], model=str(d["model"])[:600], n=len(dis)))
        else:
            run.violation_unproved("theorems of Props/C18.v", run.proof["log"])
    return run.finish(trusted=TRUSTED)


def replay(obj):
    """Recreate the recorded tree (files and links) in a fresh temp directory and run the implementation."""
    print({k: v for k, v in obj.items() if k not in ("files", "links")})
    if "files" not in obj:
        return 0
    with Tree() as t:
        old = obj.get("top", "")
        for rel, txt in obj["files"].items():
            t.write_text(t.p(rel), txt.replace(old, t.base))
        for rel, tgt in obj.get("links", {}).items():
            t.symlink(t.p(rel), tgt.replace(old, t.base))
        main = obj["main"].replace(old, t.base)
        cwd = t.p(obj.get("cwd", "."))
        ans, rc, raw = common.run_harness(["asm_file_cwd " + cwd.encode().hex() + " " + main.encode().hex()])
        print(ans)
    return 0
