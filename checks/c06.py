"""C06 -- block annotations agree with instruction-by-instruction execution.

1. proofs (Props/C06.v);
2. differential run: `annot_block` of the real AnnotatedBlock::annotate vs Model/Annot.v
   `run_annot_bytes` (every opcode alone / first / middle / last, random blocks up to 200
   instructions biased to dup/swap on shallow symbolic stacks, every push width, offsets
   beyond u16 and at the end of usize);
3. property oracle on the implementation's answers: an independent python interpreter of the
   Cancun instruction set executes the block on a random entry stack; the printed output
   expressions / exit are parsed and evaluated and must give the same stack and transfer;
4. the trusted Coq specification Spec/EvmExec.v is run against the same python interpreter,
   and the Coq statement of C06 is evaluated on sample cases (`run_c06_case`).
"""
import hashlib
import sys

from lib import common

IMPORTS = "From Verif Require Import Model.Base Model.Ops Model.Disasm Model.Sym Model.Annot Spec.EvmExec."

TRUSTED = [
    "Coq 8.16.1 kernel incl. vm_compute; axioms: none",
    "Spec/EvmSem.v + Spec/EvmExec.v: hand-written EVM word operations and block execution (oracle for state reads); "
    "cross-checked against the python interpreter of this file on every run",
    "Model/Annot.v: eval_tree / eval_texpr (meaning of an expression) and read_code / sym_pure (which opcode a symbol stands for) are part of the statement",
    "Model/Annot.v is a hand-written model of annotated.rs (VecDeque as list, only first and last stack kept); tied to the code by the differential run; "
    "ghost tags are erased before comparing",
    "tools/gen_tables.py (Cancun table regenerated from the TOML); harness crate etk-vh; python driver",
]

W = 1 << 256
USIZE_MAX = (1 << 64) - 1
sys.setrecursionlimit(20000)

# ---------------------------------------------------------------- python EVM (independent reference)


def sgn(a):
    return a if a < (1 << 255) else a - W


def tdiv(a, b):  # truncated division
    q = abs(a) // abs(b)
    return q if (a < 0) == (b < 0) else -q


def trem(a, b):
    return a - b * tdiv(a, b)


def signextend(b, x):
    if b < 31:
        t = 8 * b + 7
        low = x & ((1 << (t + 1)) - 1)
        return low | (W - (1 << (t + 1))) if (x >> t) & 1 else low
    return x


def sar(s, x):
    if s < 256:
        return (sgn(x) >> s) % W
    return W - 1 if sgn(x) < 0 else 0


PURE = {
    0x01: ("Add", 2, lambda a, b: (a + b) % W),
    0x02: ("Mul", 2, lambda a, b: (a * b) % W),
    0x03: ("Sub", 2, lambda a, b: (a - b) % W),
    0x04: ("Div", 2, lambda a, b: 0 if b == 0 else a // b),
    0x05: ("SDiv", 2, lambda a, b: 0 if b == 0 else tdiv(sgn(a), sgn(b)) % W),
    0x06: ("Mod", 2, lambda a, b: 0 if b == 0 else a % b),
    0x07: ("SMod", 2, lambda a, b: 0 if b == 0 else trem(sgn(a), sgn(b)) % W),
    0x08: ("AddMod", 3, lambda a, b, n: 0 if n == 0 else (a + b) % n),
    0x09: ("MulMod", 3, lambda a, b, n: 0 if n == 0 else (a * b) % n),
    0x0A: ("Exp", 2, lambda a, b: pow(a, b, W)),
    0x0B: ("SignExtend", 2, signextend),
    0x10: ("Lt", 2, lambda a, b: int(a < b)),
    0x11: ("Gt", 2, lambda a, b: int(a > b)),
    0x12: ("SLt", 2, lambda a, b: int(sgn(a) < sgn(b))),
    0x13: ("SGt", 2, lambda a, b: int(sgn(a) > sgn(b))),
    0x14: ("Eq", 2, lambda a, b: int(a == b)),
    0x15: ("IsZero", 1, lambda a: int(a == 0)),
    0x16: ("And", 2, lambda a, b: a & b),
    0x17: ("Or", 2, lambda a, b: a | b),
    0x18: ("Xor", 2, lambda a, b: a ^ b),
    0x19: ("Not", 1, lambda a: W - 1 - a),
    0x1A: ("Byte", 2, lambda i, x: (x >> (8 * (31 - i))) & 0xFF if i < 32 else 0),
    0x1B: ("Shl", 2, lambda s, x: (x << s) % W if s < 256 else 0),
    0x1C: ("Shr", 2, lambda s, x: x >> s if s < 256 else 0),
    0x1D: ("Sar", 2, sar),
}
PURE_BY_NAME = {v[0]: v for v in PURE.values()}

# state reads: byte -> (name as printed by the harness (Debug of Sym), operands)
READ = {
    0x20: ("Keccak256", 2), 0x30: ("Address", 0), 0x31: ("Balance", 1), 0x32: ("Origin", 0),
    0x33: ("Caller", 0), 0x34: ("CallValue", 0), 0x35: ("CallDataLoad", 1), 0x36: ("CallDataSize", 0),
    0x38: ("CodeSize", 0), 0x3A: ("GasPrice", 0), 0x3B: ("ExtCodeSize", 1), 0x3D: ("ReturnDataSize", 0),
    0x3F: ("ExtCodeHash", 1), 0x40: ("BlockHash", 1), 0x41: ("Coinbase", 0), 0x42: ("Timestamp", 0),
    0x43: ("Number", 0), 0x44: ("Difficulty", 0), 0x45: ("GasLimit", 0), 0x46: ("ChainId", 0),
    0x47: ("SelfBalance", 0), 0x48: ("BaseFee", 0), 0x51: ("MLoad", 1), 0x54: ("SLoad", 1),
    0x59: ("MSize", 0), 0x5A: ("Gas", 0), 0xF0: ("Create", 3), 0xF1: ("Call", 7), 0xF2: ("CallCode", 7),
    0xF4: ("DelegateCall", 6), 0xF5: ("Create2", 4), 0xFA: ("StaticCall", 6),
    # Cancun instructions the etk table does not have (known finding when present in a block)
    0x49: ("BlobHash", 1), 0x4A: ("BlobBaseFee", 0), 0x5C: ("TLoad", 1),
}
DROP = {0x37: 3, 0x39: 3, 0x3C: 4, 0x3E: 3, 0x50: 1, 0x52: 2, 0x53: 2, 0x55: 2, 0x5B: 0, 0x5D: 2, 0x5E: 3,
        0xA0: 2, 0xA1: 3, 0xA2: 4, 0xA3: 5, 0xA4: 6}
HALT = {0x00: 0, 0xF3: 2, 0xFD: 2, 0xFE: 0, 0xFF: 1}
CANCUN_GAP = {0x49, 0x4A, 0x5C, 0x5D}      # defined by Cancun, undefined in etk-ops/src/cancun.toml


def defined(b):
    return (b in PURE or b in READ or b in DROP or b in HALT or b in (0x56, 0x57, 0x58)
            or 0x5F <= b <= 0x9F)


def etk_terminator(b):
    """ends a block for etk's Separator: halting, jumping, or a byte its Cancun table does not define"""
    return b in HALT or b in (0x56, 0x57) or not defined(b) or b in CANCUN_GAP


def imm_len(b):
    return b - 0x5F if 0x60 <= b <= 0x7F else 0


class Underflow(Exception):
    pass


def py_exec(offset, ins, stack, rho):
    """ins: list of (byte, imm bytes). stack: list, index 0 = top. rho(idx, name, args) -> word.
    Returns (final stack, transfer, trace, deepest entry slot touched)."""
    s = list(stack)
    pc = offset
    trace = []
    height = 0          # current height relative to the entry stack
    deepest = 0

    def need(k):
        nonlocal deepest
        deepest = max(deepest, k - height)
        if len(s) < k:
            raise Underflow()

    for idx, (b, imm) in enumerate(ins):
        if b in PURE:
            name, k, f = PURE[b]
            need(k)
            args = s[:k]
            del s[:k]
            s.insert(0, f(*args))
            height += 1 - k
        elif b in READ:
            name, k = READ[b]
            need(k)
            args = s[:k]
            del s[:k]
            v = rho(idx, name, args)
            trace.append((idx, b, args))
            s.insert(0, v)
            height += 1 - k
        elif b in DROP:
            k = DROP[b]
            need(k)
            del s[:k]
            height -= k
        elif 0x5F <= b <= 0x7F:
            s.insert(0, int.from_bytes(bytes(imm), "big") if imm else 0)
            height += 1
        elif b == 0x58:
            s.insert(0, pc)
            height += 1
        elif 0x80 <= b <= 0x8F:
            n = b - 0x7F
            need(n)
            s.insert(0, s[n - 1])
            height += 1
        elif 0x90 <= b <= 0x9F:
            n = b - 0x8F
            need(n + 1)
            s[0], s[n] = s[n], s[0]
        elif b == 0x56:
            need(1)
            t = s.pop(0)
            return s, ("goto", t), trace, deepest
        elif b == 0x57:
            need(2)
            t = s.pop(0)
            c = s.pop(0)
            return s, ("cond", c, t, pc + 1), trace, deepest
        else:
            k = HALT.get(b, 0)      # halting instructions and undefined bytes
            need(k)
            del s[:k]
            return s, ("halt",), trace, deepest
        pc += 1 + len(imm)
    return s, ("fall", pc), trace, deepest


# ---------------------------------------------------------------- parsing the harness answer
def split_top(s, sep):
    out, depth, cur = [], 0, ""
    for ch in s:
        if ch == "(":
            depth += 1
        elif ch == ")":
            depth -= 1
        if ch == sep and depth == 0:
            out.append(cur)
            cur = ""
        else:
            cur += ch
    out.append(cur)
    return out


def parse_expr(s):
    """-> (tree, rest); tree = ('c', v) | ('var', n) | ('pc', n) | (name, [args])"""
    i = 0
    while i < len(s) and (s[i].isalnum()):
        i += 1
    name, rest = s[:i], s[i:]
    if rest.startswith("("):
        rest = rest[1:]
        args = []
        if rest.startswith(")"):
            return (name, args), rest[1:]
        while True:
            a, rest = parse_expr(rest)
            args.append(a)
            if rest.startswith(","):
                rest = rest[1:]
            elif rest.startswith(")"):
                return (name, args), rest[1:]
            else:
                raise ValueError("bad expression: " + s[:60])
    if name.startswith("var"):
        return ("var", int(name[3:])), rest
    if name.startswith("pc"):
        return ("pc", int(name[2:])), rest
    if name.startswith("c"):
        return ("c", int(name[1:], 16)), rest
    raise ValueError("bad leaf: " + s[:60])


def parse_answer(a):
    assert a.startswith("blk(") and a.endswith(")"), a
    body = a[4:-1]
    fields = {}
    for f in split_top_brackets(body):
        k, v = f.split("=", 1)
        fields[k] = v
    res = dict(off=int(fields["off"]), size=int(fields["size"]), jt=int(fields["jt"]))
    ins = fields["in"][1:-1]
    res["inputs"] = [x for x in ins.split(";")] if ins else []
    outs = fields["out"][1:-1]
    res["outputs"] = [parse_expr(x)[0] for x in split_top(outs, ";")] if outs else []
    ex = fields["exit"]
    if ex == "term":
        res["exit"] = ("term",)
    elif ex.startswith("fall("):
        res["exit"] = ("fall", int(ex[5:-1]))
    elif ex.startswith("jump("):
        res["exit"] = ("jump", parse_expr(ex[5:-1])[0])
    elif ex.startswith("branch("):
        c, t, f = split_top(ex[7:-1], ";")
        res["exit"] = ("branch", parse_expr(c)[0], parse_expr(t)[0], int(f))
    else:
        raise ValueError("bad exit " + ex)
    return res


def split_top_brackets(s):
    out, depth, cur = [], 0, ""
    for ch in s:
        if ch in "([":
            depth += 1
        elif ch in ")]":
            depth -= 1
        if ch == "," and depth == 0:
            out.append(cur)
            cur = ""
        else:
            cur += ch
    out.append(cur)
    return out


def eval_expr(t, stack, rho_by_content):
    k = t[0]
    if k == "c":
        return t[1]
    if k == "var":
        return stack[t[1] - 1]
    if k == "pc":
        return t[1]
    args = [eval_expr(a, stack, rho_by_content) for a in t[1]]
    if k in PURE_BY_NAME:
        _, ar, f = PURE_BY_NAME[k]
        if ar != len(args):
            raise ValueError(f"arity of {k}")
        return f(*args)
    return rho_by_content(k, args)


def content_oracle(salt):
    """The world as a function of (instruction, operands): a printed expression does not say which
    occurrence of an instruction a read node came from, so the oracle must not depend on it."""
    def rho(name, args):
        h = hashlib.sha256(repr((salt, name, args)).encode()).digest()
        v = int.from_bytes(h, "big")
        return v >> (8 * (h[0] % 32)) if h[1] & 1 else v      # mix of small and large words
    return rho


def rand_word(rng):
    r = rng.random()
    if r < 0.15:
        return rng.choice([0, 1, 2, 31, 32, 255, 256, W - 1, W - 2, 1 << 255, (1 << 255) - 1, (1 << 255) + 1])
    if r < 0.35:
        return rng.randrange(0, 300)
    if r < 0.5:
        return (W - rng.randrange(1, 300)) % W
    return rng.getrandbits(rng.choice([8, 16, 64, 128, 255, 256]))


def in_domain(offset, ins):
    """a non-empty basic block (as the Separator cuts them), inside usize and the u16 variable counter"""
    if not ins:
        return False
    if any(etk_terminator(b) for b, _ in ins[:-1]):
        return False
    if offset + sum(1 + len(i) for _, i in ins) > USIZE_MAX:
        return False
    return True


def pc_beyond_u16(offset, ins):
    pc = offset
    for b, imm in ins:
        if b == 0x58 and pc >= 65536:
            return True
        pc += 1 + len(imm)
    return False


def oracle(rng, offset, ins, answer):
    """C06 itself, evaluated on the implementation's answer. Returns list of problems."""
    problems = []
    a = parse_answer(answer)
    salt = rng.getrandbits(32)
    rc = content_oracle(salt)
    # deepest slot: from a run on a deep stack
    deep_stack = [rand_word(rng) for _ in range(len(ins) * 17 + 4)]
    _, _, _, deepest = py_exec(offset, ins, deep_stack, lambda i, n, ar: rc(n, ar))
    extra = rng.choice([0, 0, 1, 3])
    stack = deep_stack[:deepest + extra]
    final, tr, trace, d2 = py_exec(offset, ins, stack, lambda i, n, ar: rc(n, ar))
    assert d2 == deepest
    if deepest > 0:
        try:
            py_exec(offset, ins, stack[:deepest - 1], lambda i, n, ar: rc(n, ar))
            problems.append("reference interpreter inconsistent about the deepest slot")
        except Underflow:
            pass
    n = len(a["inputs"])
    if a["inputs"] != [f"var{i + 1}" for i in range(n)]:
        problems.append(f"inputs are not var1..var{n}: {a['inputs'][:5]}")
    if n != deepest:
        problems.append(f"declares {n} inputs, the block touches entry slot {deepest}")
        return problems
    if a["off"] != offset:
        problems.append(f"offset {a['off']} != {offset}")
    if a["size"] != sum(1 + len(i) for _, i in ins):
        problems.append(f"size {a['size']} != real size")
    if a["jt"] != int(ins[0][0] == 0x5B):
        problems.append(f"jump_target flag {a['jt']} but first byte is {ins[0][0]:#x}")
    vals = [eval_expr(t, stack, rc) for t in a["outputs"]]
    got = vals + stack[n:]
    if got != final:
        k = next((i for i, (x, y) in enumerate(zip(got, final)) if x != y), min(len(got), len(final)))
        problems.append(f"output stack differs at slot {k} (lengths {len(got)} vs {len(final)}): "
                        f"annotation gives {got[k] if k < len(got) else None!r}, execution {final[k] if k < len(final) else None!r}")
    ex = a["exit"]
    if ex[0] == "term":
        ok = tr == ("halt",)
    elif ex[0] == "fall":
        ok = tr == ("fall", ex[1])
    elif ex[0] == "jump":
        ok = tr == ("goto", eval_expr(ex[1], stack, rc))
    else:
        ok = tr == ("cond", eval_expr(ex[1], stack, rc), eval_expr(ex[2], stack, rc), ex[3])
    if not ok:
        problems.append(f"exit {ex[0]} does not give the executed transfer {tr[0]}{tuple(hex(x) for x in tr[1:])}")
    return problems


# ---------------------------------------------------------------- generators
def rand_imm(rng, k):
    r = rng.random()
    if r < 0.1:
        return [0] * k
    if r < 0.2:
        return [0xFF] * k
    if r < 0.35:
        z = rng.randrange(0, k + 1)
        return [0] * z + [rng.randrange(256) for _ in range(k - z)]
    return [rng.randrange(256) for _ in range(k)]


def ins_of(rng, b):
    return (b, rand_imm(rng, imm_len(b)))


NONEXIT = [b for b in range(256) if defined(b) and not etk_terminator(b)]
PURE_BYTES = sorted(PURE)
READ_BYTES = sorted(b for b in READ if b not in CANCUN_GAP)
DROP_BYTES = sorted(b for b in DROP if b not in CANCUN_GAP)
EXITS = [0x00, 0x56, 0x57, 0xF3, 0xFD, 0xFE, 0xFF, 0x0C, 0x21, 0xEF, 0x49, 0x4A, 0x5C, 0x5D, 0xA5]
SIZE_CAP = 250


class SymSizes:
    """sizes of the symbolic stack entries, to keep the generated expressions small"""

    def __init__(self):
        self.s = []

    def pop(self):
        return self.s.pop(0) if self.s else 1

    def ensure(self, n):
        while len(self.s) < n:
            self.s.append(1)

    def try_apply(self, b):
        """apply instruction b if the result stays small; return False otherwise"""
        if b in PURE or b in READ:
            k = PURE[b][1] if b in PURE else READ[b][1]
            sizes = [(self.s[i] if i < len(self.s) else 1) for i in range(k)]
            if 1 + sum(sizes) > SIZE_CAP:
                return False
            for _ in range(k):
                self.pop()
            self.s.insert(0, 1 + sum(sizes))
        elif b in DROP or b in HALT:
            for _ in range(DROP.get(b, HALT.get(b, 0))):
                self.pop()
        elif 0x5F <= b <= 0x7F or b == 0x58:
            self.s.insert(0, 1)
        elif 0x80 <= b <= 0x8F:
            n = b - 0x7F
            self.ensure(n)
            if self.s[n - 1] > SIZE_CAP // 4 and sum(self.s) > 8 * SIZE_CAP:
                return False
            self.s.insert(0, self.s[n - 1])
        elif 0x90 <= b <= 0x9F:
            n = b - 0x8F
            self.ensure(n + 1)
            self.s[0], self.s[n] = self.s[n], self.s[0]
        elif b == 0x56:
            self.pop()
        elif b == 0x57:
            self.pop()
            self.pop()
        return True


def rand_block(rng, n, exit_byte=None):
    ins = []
    sz = SymSizes()
    for _ in range(n):
        for _attempt in range(6):
            r = rng.random()
            if r < 0.22:
                b = 0x80 + min(15, int(rng.expovariate(0.35)))
            elif r < 0.40:
                b = 0x90 + min(15, int(rng.expovariate(0.35)))
            elif r < 0.55:
                b = rng.randrange(0x5F, 0x80)
            elif r < 0.78:
                b = rng.choice(PURE_BYTES)
            elif r < 0.88:
                b = rng.choice(READ_BYTES)
            elif r < 0.97:
                b = rng.choice(DROP_BYTES + [0x50, 0x50, 0x50])
            else:
                b = 0x58
            if len(sz.s) > 30 and rng.random() < 0.7:
                b = rng.choice([0x50, 0x01, 0x55, 0xA4])
            if sz.try_apply(b):
                break
        else:
            b = 0x50
            sz.try_apply(b)
        ins.append(ins_of(rng, b))
    if exit_byte is not None:
        sz.try_apply(exit_byte)
        ins.append(ins_of(rng, exit_byte))
    return ins


def rand_offset(rng):
    r = rng.random()
    if r < 0.5:
        return rng.choice([0, 1, 0x1234, rng.randrange(0, 24576)])
    if r < 0.75:
        return rng.choice([65535, 65536, 65530, 70000, 131071, rng.randrange(60000, 200000)])
    if r < 0.9:
        return rng.choice([1 << 32, (1 << 32) - 1, 1 << 48, rng.getrandbits(60)])
    return USIZE_MAX - rng.randrange(0, 40)


def req_of(offset, ins):
    body = ",".join(bytes([b] + imm).hex() for b, imm in ins) if ins else "-"
    return f"annot_block {offset} {body}"


def coq_ins(ins):
    return "[" + "; ".join("[" + "; ".join(str(x) for x in [b] + imm) + "]" for b, imm in ins) + "]%N"


def coq_of(offset, ins):
    return f"run_annot_bytes {offset}%N {coq_ins(ins)}"


def mk(offset, ins, cat):
    return dict(req=req_of(offset, ins), coq=coq_of(offset, ins), cat=cat, offset=offset, ins=ins)


def filler(rng):
    return ins_of(rng, rng.choice([0x60, 0x61, 0x7F, 0x5F, 0x80, 0x81, 0x90, 0x01, 0x03, 0x50, 0x54, 0x5A, 0x58, 0x15]))


def build_cases(run):
    rng = run.rng
    thorough = run.tier == "thorough"
    cases = []
    # every opcode alone at offset 0, and as first / middle / last of a short block
    for b in range(256):
        cases.append(mk(0, [ins_of(rng, b)], "single"))
        reps = 3 if thorough else 1
        for _ in range(reps):
            f1, f2 = filler(rng), filler(rng)
            off = rand_offset(rng) if rng.random() < 0.3 else rng.randrange(0, 5000)
            cases.append(mk(off, [ins_of(rng, b), f1, f2], "first"))
            cases.append(mk(off, [f1, ins_of(rng, b), f2], "middle"))
            cases.append(mk(off, [f1, f2, ins_of(rng, b)], "last"))
    # each dup / swap depth on each shallow symbolic stack height (forces expand_stack by every amount)
    for b in list(range(0x80, 0xA0)):
        for h in range(0, 18 if thorough else 18, 1 if thorough else 3):
            pre = [ins_of(rng, rng.choice([0x60, 0x5F, 0x30, 0x58])) for _ in range(h)]
            cases.append(mk(rng.randrange(0, 3000), pre + [ins_of(rng, b), ins_of(rng, 0x01)], "dupswap-height"))
    # random blocks
    nblocks = 1500 if thorough else 170
    for i in range(nblocks):
        n = rng.choice([1, 2, 3, 5, 8, 13, 21, 40, 80, 120, 200]) if i % 4 else rng.randrange(1, 200)
        ex = rng.choice(EXITS) if rng.random() < 0.5 else None
        cases.append(mk(rand_offset(rng), rand_block(rng, n, ex), "random-block" if ex is None else "random-block-exit"))
    # blocks that are not basic blocks / empty / overflowing: must agree on the panic
    cases.append(mk(0, [], "malformed"))
    cases.append(mk(77, [], "malformed"))
    for _ in range(60 if thorough else 20):
        n = rng.randrange(2, 30)
        ins = rand_block(rng, n)
        ins.insert(rng.randrange(0, len(ins)), ins_of(rng, rng.choice(EXITS)))
        cases.append(mk(rand_offset(rng), ins, "malformed"))
    for k in range(0, 8):
        cases.append(mk(USIZE_MAX - k, [ins_of(rng, 0x61), ins_of(rng, 0x62), ins_of(rng, 0x57)], "usize-edge"))
        cases.append(mk(USIZE_MAX - k, [ins_of(rng, 0x5B), ins_of(rng, 0x00)], "usize-edge"))
    # (the u16 variable counter overflows only on blocks touching 65536 entry slots, e.g. 10923 x log4;
    #  the model cannot be evaluated by vm_compute on blocks of that size, so the overflow panic is
    #  modelled but not exercised here; the theorem's hypothesis keeps it out of reach)
    return cases


def spec_cases(run):
    """(coq expr, python expected string) tying Spec/EvmExec.v + EvmSem.v to the python interpreter,
    and the Coq statement of C06 evaluated on concrete cases."""
    rng = run.rng
    out = []

    def hexz(v):
        return format(v, "x")

    def py_show(offset, ins, stack):
        rho = lambda i, n, a: 1000003 * (i + 1)
        try:
            s, tr, trace, _ = py_exec(offset, ins, stack, rho)
        except Underflow:
            return "underflow"
        if tr[0] == "halt":
            t = "halt"
        elif tr[0] == "goto":
            t = f"goto({hexz(tr[1])})"
        elif tr[0] == "fall":
            t = f"fall({hexz(tr[1])})"
        else:
            t = f"cond({hexz(tr[1])};{hexz(tr[2])};{hexz(tr[3])})"
        trs = ";".join(f"{i}:{b:02x}:{','.join(hexz(x) for x in a)}" for i, b, a in trace)
        return f"done([{';'.join(hexz(x) for x in s)}],{t},[{trs}])"

    def add(offset, ins, stack, cat):
        zs = "[" + "; ".join(f"{v}" for v in stack) + "]%Z"
        out.append(dict(coq=f"run_exec {offset}%N {coq_ins(ins)} {zs}", want=py_show(offset, ins, stack), cat=cat))

    n_each = 12 if run.tier == "thorough" else 3
    for b in sorted(PURE):
        for _ in range(n_each):
            k = PURE[b][1]
            stack = [rand_word(rng) for _ in range(k + rng.choice([0, 1]))]
            if b == 0x0A:
                stack[1] = rng.randrange(0, 400)          # keep a^b computable on the Coq side
            if b in (0x1A, 0x0B, 0x1B, 0x1C, 0x1D) and rng.random() < 0.7:
                stack[0] = rng.choice([0, 1, 7, 30, 31, 32, 33, 255, 256, 257, rng.randrange(0, 300)])
            add(rng.randrange(0, 1000), [(b, [])], stack, "spec-pure")
    for b in range(256):
        stack = [rand_word(rng) for _ in range(rng.choice([0, 1, 2, 7, 17, 18]))]
        if b == 0x0A and len(stack) > 1:
            stack[1] = rng.randrange(0, 400)
        add(rng.randrange(0, 70000), [ins_of(rng, b), ins_of(rng, 0x58)], stack, "spec-every-byte")
    for _ in range(120 if run.tier == "thorough" else 30):
        ins = rand_block(rng, rng.randrange(1, 40), rng.choice([None] + EXITS))
        ins = [(0x01 if b == 0x0A else b, i) for b, i in ins]
        stack = [rand_word(rng) for _ in range(rng.choice([0, 3, 20, 60]))]
        add(rng.randrange(0, 70000), ins, stack, "spec-block")
        # the Coq statement of C06 on this case (pc below 2^16, no Cancun-gap byte)
        if not any(b in CANCUN_GAP for b, _ in ins) and in_domain(0, ins):
            off = rng.randrange(0, 20000)
            zs = "[" + "; ".join(f"{v}" for v in stack) + "]%Z"
            try:
                py_exec(off, ins, stack, lambda i, n, a: 0)
                want = "ok"
            except Underflow:
                want = "underflow"
            out.append(dict(coq=f"run_c06_case {off}%N {coq_ins(ins)} {zs}", want=want, cat="coq-statement-on-case"))
    return out


def known_gap_finding():
    for f in common.load_known_findings():
        if f["pid"] == "C06" and f["cls"] == "KnownClass_C06_cancun_gap":
            return f["cls"] + " " + f["text"]
    return None


def check(run):
    rng = run.rng
    proof_ok = run.prove()
    ok, out, dt = common.build_harness(False)
    if not ok:
        run.violation_unproved("harness-build", out)
        return run.finish(trusted=TRUSTED)
    cases = build_cases(run)
    dis = common.correspond(run, cases, IMPORTS, tag="c06")
    run.corr["rule"] = ("every opcode byte alone at offset 0 and first/middle/last of a 3-instruction block; every dup/swap depth on "
                        "symbolic stacks of height 0..17; random blocks of 1..200 instructions (22% dup, 18% swap, 15% push of every width, "
                        "pure ops, state reads, drops) with and without a closing exit opcode; offsets below/above 2^16 and at the end of usize; "
                        "malformed blocks (exit not last, empty) must agree on the panic. distinct = distinct requests; non-trivial = all")
    # ---- the trusted spec against the python interpreter; the Coq statement on cases
    sc = spec_cases(run)
    res, errors = common.coq_eval(IMPORTS, [c["coq"] for c in sc], timeout=900, tag="c06spec" + run.pid)
    spec_bad = [dict(c, got=r) for c, r in zip(sc, res) if r != c["want"]]
    for c in sc:
        run.corr["distribution"][c["cat"]] = run.corr["distribution"].get(c["cat"], 0) + 1
    run.corr["cases"] += len(sc)
    run.corr["distinct"] = run.corr.get("distinct", 0) + len(set(c["coq"] for c in sc))
    run.corr["disagreements"] += len(spec_bad)
    # ---- property oracle on the implementation's answers
    found = 0
    gap_seen = 0
    oracle_runs = 0
    pc_skipped = 0
    known = known_gap_finding()
    for c in cases:
        off, ins = c["offset"], c["ins"]
        if not in_domain(off, ins) or c["cat"].startswith("vars-"):
            continue
        impl = c["impl"]
        if pc_beyond_u16(off, ins):
            # accepted limitation: Expr::pc(pc as u16) truncates offsets >= 65536, which no deployable
            # code has (EIP-170: 24576 bytes); the theorem states pc < 2^16
            pc_skipped += 1
            continue
        if impl is None or impl.startswith("panic") or impl.startswith("crash") or not impl.startswith("blk("):
            problems = [f"annotate crashed on a well-formed basic block: {impl}"]
        else:
            try:
                problems = oracle(rng, off, ins, impl)
                oracle_runs += 1
            except (ValueError, KeyError, IndexError, AssertionError) as e:
                problems = [f"answer could not be evaluated: {e!r}"]
        if not problems:
            continue
        if ins[-1][0] in CANCUN_GAP:
            gap_seen += 1
            if known:
                run.known_finding(known)
                continue
        found += 1
        if found <= 3:
            run.violation(dict(property="C06", offset=off, block=[bytes([b] + i).hex() for b, i in ins], impl=impl[:2000],
                               problems=problems, replay=f"echo '{c['req']}' | .cache/target/debug/etk-vh"))
    run.notes.append(f"property oracle evaluated on {oracle_runs} implementation answers; {gap_seen} blocks ending in a Cancun opcode "
                     f"the etk table lacks; {pc_skipped} blocks with a `pc` instruction at an offset >= 65536 skipped (accepted u16 truncation)")
    run.coverage = dict(oracle_runs=oracle_runs)
    if (not proof_ok or dis or spec_bad) and not found:
        if dis:
            d = dis[0]
            run.log(f"DISAGREE {d['req'][:300]}: impl={str(d['impl'])[:300]!r} model={str(d['model'])[:300]!r}")
            run.violation_unproved("correspondence Model/Annot.v vs etk-dasm annotated.rs",
                                   dict(request=d["req"][:1500], impl=str(d["impl"])[:1000], model=str(d["model"])[:1000], n=len(dis)))
        elif spec_bad:
            d = spec_bad[0]
            run.log(f"SPEC/PYTHON DISAGREE {d['coq'][:300]}: coq={d['got']!r} python={d['want']!r}")
            run.violation_unproved("Spec/EvmExec.v vs the python reference interpreter (or the Coq statement of C06 fails on a case)",
                                   dict(coq=d["coq"][:1500], got=d["got"], want=d["want"], n=len(spec_bad), errors=[e[-400:] for e in errors[:2]]))
        else:
            run.violation_unproved("theorems of Props/C06.v", run.proof["log"])
    return run.finish(trusted=TRUSTED, extra_cov=dict(oracle_runs=oracle_runs))


def replay(obj):
    print({k: v for k, v in obj.items() if k != "impl"})
    if "replay" in obj:
        rc, out = common.sh(obj["replay"], cwd=common.VERIF)
        print(out)
    return 0
