"""C01 -- label values equal the real byte offsets of the labelled instructions."""
from lib import common, asmgen as G

IMPORTS = "From Verif Require Import Model.Base Model.Ops Model.Expr Model.Asm."

TRUSTED = [
    "Coq 8.16.1 kernel incl. vm_compute; axioms: none",
    "tools/gen_tables.py (opcode sizes regenerated from the TOML)",
    "Model/Asm.v + Model/Expr.v: hand-written model of Assembler::{push,expand_macro,layout,emit_bytecode} and of operand evaluation; tied to the code by differential runs on generated programs (the AST is printed to source text for the real assembler, so the pest parser is exercised but not modelled here)",
    "the rand::thread_rng suffix of mangled macro labels is modelled by a counter: collisions with other labels are assumed away (probability <= n^2 2^-64)",
    "harness crate etk-vh and python driver; python decoder used only for the counter-example search",
]


def filler(n):
    """n bytes of filler instructions (no labels, no jumpdest)."""
    ops = []
    while n >= 33 and n > 400:
        ops.append(("op", "push32", ("num", 0x1122334455667788990011223344556677889900112233445566778899001122, 16)))
        n -= 33
    ops += [("op", "pc", None)] * n
    return ops


def gen_program(rng, big=False, bare=False):
    """Layout program: labels (each followed by a jumpdest sentinel), fixed and auto-sized pushes of
    label expressions, filler sized so that label values land on width boundaries; probes at the end."""
    k = rng.randrange(1, 4)
    labels = [f"l{i}" for i in range(k)]
    body = []
    n_items = rng.randrange(2, 7)
    for _ in range(n_items):
        r = rng.random()
        L = rng.choice(labels)
        M = rng.choice(labels)
        if r < 0.35:
            body.append(("push", ("lbl", L)))
        elif r < 0.5:
            body.append(("push", ("+", ("lbl", L), ("num", rng.choice([0, 1, 2, 3, 250, 254, 255, 256, 65530])))))
        elif r < 0.6:
            body.append(("push", ("-", ("num", rng.choice([255, 256, 257, 258, 259, 300, 65536, 65540])), ("lbl", L))))
        elif r < 0.7:
            body.append(("push", G.climb([("lbl", L), "-", ("lbl", M), "+", ("num", rng.choice([0, 255, 256]))])))
        elif r < 0.8:
            body.append(("op", "push2", ("lbl", L)))
        elif r < 0.9:
            body.append(("push", ("num", rng.choice([0, 1, 255, 256, 65535, 65536, 2**64]))))
        else:
            body.append(("op", rng.choice(["pc", "gas", "caller"]), None))
    # place labels at random positions, fillers tuned to a boundary
    target = rng.choice([65534, 65535, 65536, 65537]) if big else rng.choice([250, 252, 253, 254, 255, 256, 257, 258, 259, 10, 0])
    pos = sorted(rng.randrange(0, len(body) + 1) for _ in labels)
    prog = []
    used = 0
    fill_at = rng.randrange(0, len(body) + 1)
    est = 2 * len(body)
    for i in range(len(body) + 1):
        if i == fill_at:
            prog += filler(max(0, target - est + rng.randrange(-3, 4)))
        while used < len(labels) and pos[used] == i:
            prog.append(("label", labels[used]))
            if not bare:
                prog.append(("op", "jumpdest", None))
            used += 1
        if i < len(body):
            prog.append(body[i])
    order = [o[1] for o in prog if o[0] == "label"]
    if bare:
        # no sentinel: the label must equal the offset of whatever instruction follows it (often an
        # auto-sized push): recorded as the index of that instruction in the macro-free program
        order = []
        k = 0
        for o in prog:
            if o[0] == "label":
                order.append((o[1], k))
            else:
                k += 1
    for L in order:
        prog.append(("op", "push4", ("lbl", L[0] if bare else L)))
    return prog, order


def gen_macro_program(rng):
    """The same question inside a macro expansion: local labels, %push of local and outer labels."""
    pad = rng.choice([0, 200, 245, 250, 252, 254])
    body = [("label", "a"), ("op", "jumpdest", None), ("push", ("lbl", "a")), ("push", ("lbl", "out")),
            ("op", "push4", ("lbl", "a"))]
    rng.shuffle(body)
    # keep label directly followed by its sentinel
    body = [b for b in body if b not in (("label", "a"), ("op", "jumpdest", None))]
    at = rng.randrange(0, len(body) + 1)
    body[at:at] = [("label", "a"), ("op", "jumpdest", None)]
    prog = [("defi", "m", [], body)] if rng.random() < 0.5 else []
    prog += filler(pad)
    prog += [("macro", "m", [])]
    prog += filler(rng.choice([0, 3, 250]))
    prog += [("macro", "m", [])] if rng.random() < 0.6 else []
    prog += [("label", "out"), ("op", "jumpdest", None), ("op", "push4", ("lbl", "out"))]
    if prog[0][0] != "defi":
        prog.append(("defi", "m", [], body))
    return prog, None


# ---------------------------------------------------------------- cascades: layouts that need many rounds
def _width(v):
    return max(1, (v.bit_length() + 7) // 8)


def _rounds(exprs_before, exprs_after):
    """number of widening rounds the relaxation needs for: pushes(before) L: jumpdest pushes(after),
    each push being %push(L*m + k) given as (m, k).  Used only to SELECT interesting programs."""
    n = len(exprs_before) + len(exprs_after)
    w = [1] * n
    rounds = 0
    while True:
        L = sum(1 + x for x in w[:len(exprs_before)])
        changed = False
        for i, (m, k) in enumerate(exprs_before + exprs_after):
            need = min(32, _width(L * m + k))
            if need > w[i]:
                w[i] = need
                changed = True
        if not changed:
            return rounds, w, L
        rounds += 1


def _cascade_prog(before, after):
    def e(m, k):
        t = ("lbl", "L") if m == 1 else G.climb([("lbl", "L"), "*", ("num", m)])
        return t if k == 0 else G.climb([t, "+", ("num", k)]) if m == 1 else G.climb([("lbl", "L"), "*", ("num", m), "+", ("num", k)])
    prog = [("push", e(m, k)) for m, k in before] + [("label", "L"), ("op", "jumpdest", None)] + [("push", e(m, k)) for m, k in after]
    prog.append(("op", "push4", ("lbl", "L")))
    return prog, ["L"]


def cascade_programs(rng, n):
    """programs whose auto-sized pushes settle only after several rounds: one push that grows twice
    (%push(L + 256^k - (k+1))), and searched two/three-push programs in which each widening moves the
    label far enough to widen another push (more rounds than there are pushes)."""
    out = []
    for k in (2, 3, 4, 8, 16, 31):
        out.append(_cascade_prog([(1, 256 ** k - (k + 1))], []) + ("cascade-single",))
    out.append(_cascade_prog([(10923, 0), (1, 251)], []) + ("cascade-two",))
    tries = 0
    seen = set()
    while len(out) < n and tries < 20000:
        tries += 1
        nb = rng.randrange(2, 4)
        na = rng.randrange(0, 2)
        def rnd():
            k = rng.choice([1, 2, 3])
            if rng.random() < 0.5:
                return (1, 256 ** k - rng.randrange(1, 12))
            m = rng.choice([3, 7, 64, 10923, 21846, 13108, 255, 257, 65537 // rng.randrange(3, 12)])
            return (m, rng.choice([0, 0, rng.randrange(0, 300)]))
        before = [rnd() for _ in range(nb)]
        after = [rnd() for _ in range(na)]
        r, w, L = _rounds(before, after)
        if r >= nb + na + 1 and max(w) < 32 and (tuple(before), tuple(after)) not in seen:
            seen.add((tuple(before), tuple(after)))
            out.append(_cascade_prog(before, after) + ("cascade-searched",))
    return out


def oracle(prog, order, answer):
    """The property itself on the implementation's bytes: the probes (fixed push4 of each label,
    in label order, at the end) must hold the decoded offset of the sentinel jumpdest after the label."""
    if order is None or not answer.startswith("ok:"):
        return []
    bs = bytes.fromhex(answer[3:]) if answer[3:] != "-" else b""
    items = G.decode(bs)
    if order and isinstance(order[0], tuple):
        probes = [int.from_bytes(i, "big") for o, c, i in items[len(items) - len(order):] if c == 0x63]
        problems = []
        for (L, idx), p in zip(order, probes):
            want = items[idx][0] if idx < len(items) else len(bs)
            if p != want:
                problems.append(f"label {L} evaluates to {p} but the instruction after it (#{idx}) is at offset {want}")
        return problems
    jds = [o for o, c, i in items if c == 0x5B]
    probes = [int.from_bytes(i, "big") for o, c, i in items[len(items) - len(order):] if c == 0x63]
    problems = []
    if len(jds) != len(order) or len(probes) != len(order):
        return [f"decoded {len(jds)} sentinels / {len(probes)} probes for {len(order)} labels"]
    for L, j, p in zip(order, jds, probes):
        if j != p:
            problems.append(f"label {L} evaluates to {p} but the instruction after it is at offset {j}")
    return problems


def check(run):
    rng = run.rng
    proof_ok = run.prove()
    ok, out, dt = common.build_harness(False)
    if not ok:
        run.violation_unproved("harness-build", out)
        return run.finish(trusted=TRUSTED)
    cases = []
    n = 1200 if run.tier == "thorough" else 140
    for i in range(n):
        if i % 5 == 4:
            prog, order = gen_macro_program(rng)
            cat = "macro"
        else:
            big = (i % 60 == 7) if run.tier == 'thorough' else (i == 7)
            bare = (i % 3 == 1)
            prog, order = gen_program(rng, big, bare)
            cat = ("big" if big else "boundary") + ("-bare-labels" if bare else "")
        src = G.prog_src(prog)
        cases.append(dict(req="asm " + src.encode().hex(), coq=f"run_asm {G.prog_coq(prog)}", cat=cat, prog=prog, order=order, src=src))
    for prog, order, cat in cascade_programs(rng, 40 if run.tier == "thorough" else 16):
        src = G.prog_src(prog)
        cases.append(dict(req="asm " + src.encode().hex(), coq=f"run_asm {G.prog_coq(prog)}", cat=cat, prog=prog, order=order, src=src))
        mprog = [("defi", "m", ["q"], prog[:-1])] + [("macro", "m", [("num", 1)])]
        src = G.prog_src(mprog)
        cases.append(dict(req="asm " + src.encode().hex(), coq=f"run_asm {G.prog_coq(mprog)}", cat=cat + "-in-macro", prog=mprog, order=None, src=src))
    # a call-site label passed to a macro that defines a local label of the same name: the argument keeps the offset
    # of the call-site label (the expected bytes are those of the hand-expanded program, assembled the same way)
    J, PC = ("op", "jumpdest", None), ("op", "pc", None)
    for pad in (1, 300):
        for mk in (lambda e: ("push", e), lambda e: ("op", "push2", e)):
            clash = [
                ([("defi", "retry", ["t"], [("label", "again"), J, mk(("var", "t")), ("op", "jump", None)]), ("label", "again"), J] + [PC] * pad + [("macro", "retry", [("lbl", "again")])],
                 [("label", "again"), J] + [PC] * pad + [("label", "again_l"), J, mk(("lbl", "again")), ("op", "jump", None)]),
                ([("defi", "leave", ["t"], [mk(("var", "t")), ("op", "jump", None), ("label", "done"), J]), ("macro", "leave", [("lbl", "done")])] + [PC] * pad + [("label", "done"), J],
                 [mk(("lbl", "done")), ("op", "jump", None), ("label", "done_l"), J] + [PC] * pad + [("label", "done"), J]),
                ([("defi", "both", ["t"], [("label", "x"), J, mk(G.climb([("var", "t"), "+", ("lbl", "x")]))]), PC, ("label", "x"), J] + [PC] * pad + [("macro", "both", [("lbl", "x")])],
                 [PC, ("label", "x"), J] + [PC] * pad + [("label", "x_l"), J, mk(G.climb([("lbl", "x"), "+", ("lbl", "x_l")]))]),
            ]
            for mprog, flat in clash:
                src = G.prog_src(mprog)
                cases.append(dict(req="asm " + src.encode().hex(), coq=f"run_asm {G.prog_coq(mprog)}", cat="macro-argument-label-clash", prog=mprog, order=None, src=src,
                                  flat_req="asm " + G.prog_src(flat).encode().hex()))
    dis = common.correspond(run, cases, IMPORTS, tag="c01", timeout=900)
    flat_cases = [c for c in cases if c.get("flat_req")]
    flat_ans, _, _ = common.run_harness([c["flat_req"] for c in flat_cases])
    for c, a in zip(flat_cases, flat_ans):
        c["flat_impl"] = a
    run.corr["rule"] = ("layout programs: 1-3 labels, in two thirds of the programs each followed by a jumpdest sentinel, in one third directly in front of whatever comes next (often an auto-sized push that grows; oracle: label = offset of the next instruction), 2-6 fixed/auto-sized pushes of label expressions "
                        "(l, l+c, c-l, l-m+c), filler tuned so label values straddle 255/256 (and 65535/65536), probes push4 l at the end; "
                        "macro variant with local labels; cascades: one auto-sized push that grows twice (L + 256^k - (k+1)) and searched 2-4 push programs "
                        "that need more widening rounds than they have pushes, plain and inside a macro; call-site labels passed to macros that define a local label of the same name; distinct = distinct sources")
    found = 0
    for c in cases:
        problems = oracle(c["prog"], c["order"], c["impl"] or "")
        if (c["impl"] or "").startswith("panic"):
            problems.append("assembler panicked: " + c["impl"])
        if c.get("flat_req") and c.get("flat_impl") and (c["impl"] or "").startswith(("ok:", "err:")) and c["impl"] != c["flat_impl"]:
            problems.append(f"the macro program gives {c['impl'][:80]} but its hand-expanded form (local label renamed, argument label untouched) gives {c['flat_impl'][:80]}")
        if problems:
            found += 1
            if found <= 3:
                run.violation(dict(property="C01", source=c["src"] if len(c["src"]) < 4000 else c["src"][:4000] + "...", impl=c["impl"][:400], problems=problems,
                                   replay="python3 -c \"import sys;print('asm '+open(sys.argv[1]).read().encode().hex())\" <file with the source> | .cache/target/debug/etk-vh"))
    if (not proof_ok or dis) and not found:
        if dis:
            d = dis[0]
            run.log(f"DISAGREE ({len(dis)}) src={d['src'][:300]!r}: impl={str(d['impl'])[:200]!r} model={str(d['model'])[:200]!r}")
            run.violation_unproved("correspondence Model/Asm.v vs etk-asm asm.rs", dict(source=d["src"][:3000], impl=d["impl"], model=d["model"], n=len(dis)))
        else:
            run.violation_unproved("theorems of Props/C01.v", run.proof["log"])
    return run.finish(trusted=TRUSTED)


def replay(obj):
    print(obj)
    return 0
