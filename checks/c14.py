"""C14 -- the assembler never crashes, whatever the input."""
import os
import shutil
import tempfile
from lib import asmgen as G, common
from checks import asmfam, c13, c11, c10, c09, c07, c01
from checks.asmfam import mk_case, answer_kind, replay  # noqa: F401

ALPHABET = list("%$()\"\\:;#+-*/,._ \t\n0123456789abcdefxXob") + ["\x00", "\xc3\xa9", "\xff"[:1]]

SPECIALS = [
    "", "\n", ";", ";;", "%", "%push", "%push(", "%push()", "%push(1", "%push(1))", "%import", "%import(", '%import("', '%import("")',
    '%import("a\\\\b")', '%import("a\\"b")', '%include(1)', '%include("x", "y")', '%include_hex()', "push1", "push1 ", "push1 --1", "push1 -", "push1 0x", "push1 0x1",
    "push1 0b", "push1 0o8", "push0 1", "push33 1", "push1 1 1", "push1 (1", "push1 1)", "push1 ()", "push1 1+", "push1 +1", "push1 1//1", "push1 1/0", "push1 0/0",
    "push1 -0", "push1 -0/0", "push1 $", "push1 $x", "push1 f(", "push1 f()", "push1 f(,)", "push1 f(1,)", "push1 selector(\"\")", "push1 selector(\"a()\")",
    "push4 selector(\"a(\")", "push32 topic(\"x(uint256,)\")", "a:", "a: a:", "a:a:", "1:", "_a:", "a b:", "%def f()\n\n%end", "%def f()\n1\n%end", "%def f(\n1\n%end",
    "%def f() 1 %end", "%macro m()\n%end", "%macro m()\n%end\n%m()", "%macro m(a,a)\npush1 $a\n%end\n%m(1,2)", "%macro m()\n%macro n()\n%end\n%end", "%end", "%m()", "%m(",
    "%macro m()\n%m()\n%end\n%m()", "%def f()\nf()\n%end\npush1 f()", "%macro m()\npc\n%end\npush1 m()", "%def f(x)\n$x\n%end\n%f(1)", "jumpdest jumpdest", "stop;stop", "stop ; ; stop",
    "push1 1 # c", "# only comment", "push1 0xzz", "push2 0x100000", "push1 256", "push1 255+1", "%push(-1)", "%push(0-1)", "%push(" + "9" * 80 + ")", "push32 " + "9" * 400,
    "push1 a\na:\na:", "push1 \xc3\xa9", "st\x00op", "%push(a)\n" * 3 + "a:",
]


def mutate(rng, s):
    b = list(s)
    for _ in range(rng.randrange(1, 4)):
        r = rng.random()
        pos = rng.randrange(0, len(b) + 1)
        if r < 0.3 and b:
            del b[min(pos, len(b) - 1)]
        elif r < 0.6:
            b.insert(pos, rng.choice(ALPHABET))
        elif r < 0.8 and b:
            b[min(pos, len(b) - 1)] = rng.choice(ALPHABET)
        elif r < 0.9:
            b = b[:pos]
        else:
            b = b + b[pos:]
    return "".join(b)


def known_class(src):
    """D19: resource exhaustion on enormous operands (recursive descent / recursive evaluation)."""
    depth = mx = 0
    for ch in src:
        if ch == "(":
            depth += 1
            mx = max(mx, depth)
        elif ch == ")":
            depth -= 1
    nops = max((line.count("+") + line.count("-") + line.count("*") + line.count("/")) for line in src.split("\n")) if src else 0
    return mx > 2000 or nops > 10000


def check(run):
    rng = run.rng
    # ---- A: AST-level programs (with the model): faults of every kind, macro programs
    cases = []
    for f in c13.FAULTS:
        p, exp = c13.inject(rng, c13.base_program(rng), f)
        cases.append(mk_case(p, "fault:" + f))
    for _ in range(20):
        cases.append(mk_case(c10.gen_case(rng), "macros"))
        prog, use, em, _ = c11.gen_case(rng, rng.random() < 0.25)
        cases.append(mk_case(prog, "emacros"))
    # the operand-range, auto-sizing and layout families: every boundary where a width, a sign or a label
    # value decides between an error and bytes (label-dependent operands reach the layout and emit phases,
    # constant ones are rejected earlier)
    for c in c09.gen(run):
        cases.append(mk_case(c["prog"], "range:" + c["cat"]))
    for c in c07.gen(run)[:80 if run.tier != "thorough" else None]:
        cases.append(mk_case(c["prog"], "autosize"))
    for v in (2 ** 256, 2 ** 256 + 5, 2 ** 264, 2 ** 300, -1, -2 ** 255, -2 ** 256, -2 ** 300):
        e = ("num", v) if v >= 0 else G.climb([("num", 0), "-", ("num", -v)])
        body = e if v >= 0 else ("paren", e)
        for lbl_first in (True, False):
            ops = [("push", G.climb([("lbl", "z"), "+", body]))]
            prog = ([("label", "z")] + ops + [("op", "jumpdest", None)]) if lbl_first else (ops + [("label", "z"), ("op", "jumpdest", None)])
            cases.append(mk_case(prog, "oversize-label-push"))
            cases.append(mk_case([("defi", "m", ["x"], prog)] + [("macro", "m", [("num", 1)])], "oversize-label-push-in-macro"))
            cases.append(mk_case([("defe", "k", [], body)] + ([("label", "z")] if lbl_first else []) + [("push", G.climb([("lbl", "z"), "+", ("macro", "k", [])]))] + ([] if lbl_first else [("label", "z")]) + [("op", "jumpdest", None)], "oversize-label-push-emacro"))
        for N in (1, 2, 31, 32):
            cases.append(mk_case([("op", f"push{N}", G.climb([("lbl", "z"), "+", body])), ("label", "z"), ("op", "jumpdest", None)], "oversize-label-fixed"))
    for _ in range(6 if run.tier != "thorough" else 30):
        prog, order = c01.gen_program(rng)
        cases.append(mk_case(prog, "layout"))
    proof_ok = run.prove()
    ok, out, dt = common.build_harness(False)
    if not ok:
        run.violation_unproved("harness-build", out)
        return run.finish(trusted=asmfam.TRUSTED)
    dis = common.correspond(run, cases, asmfam.IMPORTS, tag="c14", timeout=600)
    # ---- A': strings through the model FROM SOURCE TEXT (Model/Peg.v + Model/ParseTree.v + Model/Asm.v, proved panic-free
    # in Props/C14.v: C14_text_never_panics) and through pest / parse_asm / Ingest::ingest: pairs, tree, bytes
    from checks import pegcorr
    peg_dis = pegcorr.report(run)
    # ---- B: strings through the whole assembler: outcome must be a returned value
    texts = list(SPECIALS)
    # auto-sized pushes whose value SHRINKS when the push is widened (K - label behind it, K chosen so that the value
    # crosses a width boundary both ways: needs k+1 bytes when laid out with k, and k when laid out with k+1), and the
    # cascades / shrinking programs of C07: the layout loop must still end
    for k in (1, 2, 3, 4, 8, 31):
        K = 256 ** k + 1 + k
        for form in (f"%push({K} - lbl)\nlbl:\njumpdest\n", f"%push(({K} - lbl))\nlbl:\njumpdest\n", f"%push({K} - lbl)\n%push({K + 1 + k} - lbl)\nlbl:\njumpdest\n",
                     f"%macro m()\n%push({K} - lbl)\nlbl:\njumpdest\n%end\n%m()\n", f"%def d(x)\n{K} - $x\n%end\n%push(d(lbl))\nlbl:\njumpdest\n",
                     f"start:\n%push(lbl + {256 ** k - 2 - k})\n%push({K + 1 + k} - lbl)\nlbl:\njumpdest\n"):
            texts.append(form)
    texts += [c["src"] for c in c07.label_dependent_cases(run)]
    seeds = [c["src"] for c in cases]
    for _ in range(3000 if run.tier == "thorough" else 500):
        texts.append(mutate(rng, rng.choice(seeds + SPECIALS)))
    reqs = []
    for t in texts:
        try:
            reqs.append(("asm " + (t.encode("utf-8", "surrogateescape").hex() or "-"), t))
        except Exception:
            pass
    # ---- C: file graphs and root paths
    tmp = tempfile.mkdtemp(prefix="vh_c14_")
    try:
        os.makedirs(os.path.join(tmp, "sub"))
        open(os.path.join(tmp, "a.etk"), "w").write('%import("b.etk")\npc\n')
        open(os.path.join(tmp, "b.etk"), "w").write('%import("a.etk")\npc\n')          # cyclic import
        open(os.path.join(tmp, "self.etk"), "w").write('%include("self.etk")\n')      # cyclic include
        open(os.path.join(tmp, "ok.etk"), "w").write('pc\n')
        open(os.path.join(tmp, "bad.hex"), "w").write('zz')
        open(os.path.join(tmp, "sub", "c.etk"), "w").write('%import("../ok.etk")\n%include_hex("../bad.hex")\n')
        paths = [os.path.join(tmp, "a.etk"), os.path.join(tmp, "self.etk"), os.path.join(tmp, "sub", "c.etk"), os.path.join(tmp, "missing.etk"),
                 os.path.join(tmp, "sub"), tmp + "/nonexistent_dir/x.etk", "/", "", ".", "..", "x.etk", "/x.etk", tmp + "/ok.etk/inner.etk", "\x00"[:0] + "a\nb"]
        for p in paths:
            reqs.append(("asm_file " + (p.encode().hex() or "-"), "file:" + p))
            for body in ('%import("ok.etk")', '%include("a.etk")', '%include_hex("bad.hex")', '%import("")', '%include("/")', '%include("sub")', "pc"):
                reqs.append((f"asm_at {p.encode().hex() or '-'} {body.encode().hex()}", f"at:{p}:{body}"))
        # ---- D: enormous operands (known finding D19)
        for d in (300, 1500):
            reqs.append(("asm " + ("push1 " + "(" * d + "1" + ")" * d).encode().hex(), "push1 " + "(" * d + "1" + ")" * d))
        answers, rc, raw = common.run_harness([r for r, _ in reqs], timeout=300)
        # the known finding D19, each in its own child process with a time limit
        deep = ["push1 " + "(" * 30000 + "1" + ")" * 30000, "push32 " + "+".join(["1"] * 60000)]
        for big in deep:
            one, rc1, raw1 = common.run_harness(["asm " + big.encode().hex()], timeout=60)
            reqs.append(("asm <" + big[:20] + "... %d chars>" % len(big), big))
            answers.append(one[0] if one else f"crash:rc={rc1}")
        if len(answers) != len(reqs):
            # the process died: locate the culprits one by one, each in its own child with a time limit
            answers = []
            for r, _ in reqs:
                one, rc1, raw1 = common.run_harness([r], timeout=20)
                answers.append(one[0] if one else f"crash:rc={rc1}")
    finally:
        shutil.rmtree(tmp, ignore_errors=True)
    run.corr["cases"] += len(reqs)
    run.corr["distinct"] = run.corr.get("distinct", 0) + len(set(r for r, _ in reqs))
    dist = run.corr["distribution"]
    found = 0
    for (r, t), a in zip(reqs, answers):
        k = answer_kind(a)
        dist["string:" + ("ok" if k == "ok" else "error" if k not in ("panic", "crash") else k)] = dist.get("string:" + ("ok" if k == "ok" else "error" if k not in ("panic", "crash") else k), 0) + 1
        if k in ("panic", "crash"):
            if known_class(t):
                run.known_finding("deep-nesting: an operand with parenthesis depth > 2000 or > 10000 binary operators overflows the native stack (recursive descent in pest / recursive evaluation); e.g. `push1 ((((...1...))))` with 30000 levels")
                continue
            found += 1
            if found <= 3:
                run.violation(dict(property="C14", request=r[:3000], text=t[:2000], outcome=a[:300],
                                   replay=f"echo '{r[:3000]}' | .cache/target/debug/etk-vh"))
    for c in cases:
        if (c["impl"] or "").startswith(("panic", "crash")) or not c["impl"]:
            found += 1
            if found <= 3:
                run.violation(dict(property="C14", source=c["src"], outcome=c["impl"], replay="see source"))
    run.corr["rule"] = ("A: AST-level programs with each of 20 fault kinds, random macro programs, the operand-range / auto-sizing / layout families of C09 C07 C01, label-dependent pushes of 2^256..2^300 and negative values (plain, inside an instruction macro, through an expression macro, label before and after), compared with the model (which must not return Panic either); "
                        "A': the model from source text in three layers on the same texts (categories peg:* / text:*: generated programs, programs over every statement kind in random layouts, hand-written odd texts, mutations, truncations, splices): PEG model vs pest's pairs, Model/ParseTree.v vs parse_asm (Debug rendering of the nodes or the ParseError kind), and text -> bytes vs Ingest::ingest for texts without file directives; B: 100 hand-written odd strings + byte-level mutations of valid and odd sources (insert/delete/replace from a punctuation-heavy alphabet, truncate, duplicate); "
                        "C: cyclic imports/includes, missing files, directories, invalid hex, 14 unusual root paths x 7 directives; D: deep parenthesis nesting; "
                        "outcome of every case must be a returned value; distinct = distinct requests")
    if (not proof_ok or dis or peg_dis) and not found:
        if peg_dis:
            d = peg_dis[0]
            run.violation_unproved(pegcorr.describe(d),
                                   dict(text=d["text"][:2000], hex=d["hex"][:4000], impl=str(d["impl"])[:1500], model=str(d["model"])[:1500], n=len(peg_dis)))
        elif dis:
            d = dis[0]
            run.log(f"DISAGREE ({len(dis)}) src={d['src'][:300]!r}: impl={str(d['impl'])[:200]!r} model={str(d['model'])[:200]!r}")
            run.violation_unproved("correspondence Model/Asm.v vs etk-asm (error paths)", dict(source=d["src"][:3000], impl=d["impl"], model=d["model"], n=len(dis)))
        else:
            run.violation_unproved("theorems of Props/C14.v", run.proof["log"])
    return run.finish(trusted=asmfam.TRUSTED + ["pest: modelled by Model/Peg.v (generic PEG interpreter following pest_generator / parser_state.rs) on Gen/AsmGrammar.v (tools/gen_tables.py reads asm.pest completely); pairs -> syntax tree (parse/mod.rs, macros.rs, expression.rs, args.rs) modelled by Model/ParseTree.v; both tied to the real parser by the peg:* / text:* differential runs (pairs, Debug rendering of the nodes, assembled bytes); pest_meta's optimizer passes and pest's error reporting are not modelled; file directives of a text (%import/%include/%include_hex) are outside C14_text_never_panics (they are Model/Ingest.v, C12/C18) and the native stack remains covered by exploration only"])
