"""C05 (helper) -- cross-check of Model/Z3Tr.v against etk-analyze/src/sym.rs.

For every symbol of etk_dasm::sym::Sym (distinct variables as arguments), some constants and
nested expressions:
  * the real z3 term is obtained from the implementation (harness command `z3term`, hook
    etk_analyze::verif::expr_to_smt2) as SMT-LIB2 text,
  * the model's term is obtained from Coq (`run_z3term`, i.e. smt_of_term (tr_sexpr e)),
  * z3 (python binding, child process `python3-vt`) is asked to REFUTE equality of the two terms
    for all values of the shared free symbols: both definitions are asserted together with
    `verif_result != model_result`; the answer must be `unsat` (timeout 20 s per case).
Fresh constants (`prefix!N`) are identified by order of creation: on both sides they are renamed
to `prefix!<rank of N>`.
Exp is solved like every other symbol: with a literal exponent that fits 64 bits the
implementation builds square-and-multiply products (cases: exponents 0, 1, 2, 3, 255, 256,
0x1001, 4095, a pc, x**0 as an exponent), otherwise a fresh constant `exp!N` (cases: symbolic exponent,
compound constant expression, constant 2^64).  The model's terms are trees (z3 shares the
repeated squares), so the model's text for the exponent e has about 2e leaves: exponents are
kept <= 4097 here (65535 works but Coq needs ~80 s to print the 1.3 MB; 2^64-1 cannot be
printed at all; the theorems cover every e < 2^64).
Should an integer power `^` reappear in the implementation's text, the case is reported.
This validates the hand-written model against the code; it is not one of the theorems.

    run_ops(run) -> (disagreements, details)        python3 checks/c05ops.py [--tier thorough]
"""
import json
import os
import re
import subprocess
import sys
import tempfile
import time

if __name__ == "__main__":
    sys.path.insert(0, os.path.dirname(os.path.dirname(os.path.abspath(__file__))))
from lib import common

IMPORTS = "From Verif Require Import Model.Base Model.Sym Spec.SmtBv Model.Z3Tr.\nOpen Scope Z_scope."
Z3_PYTHON = os.environ.get("VERIF_Z3_PYTHON", "python3-vt")
Z3_TIMEOUT_MS = 20000

# name (= harness constructor = Sym variant) -> arity
SYMS = {
    "Add": 2, "Mul": 2, "Sub": 2, "Div": 2, "SDiv": 2, "Mod": 2, "SMod": 2, "AddMod": 3, "MulMod": 3,
    "Exp": 2, "Lt": 2, "Gt": 2, "SLt": 2, "SGt": 2, "Eq": 2, "And": 2, "Or": 2, "Xor": 2, "Byte": 2,
    "Shl": 2, "Shr": 2, "Sar": 2, "Keccak256": 2, "SignExtend": 2, "IsZero": 1, "Not": 1,
    "CallDataLoad": 1, "ExtCodeSize": 1, "ExtCodeHash": 1, "MLoad": 1, "SLoad": 1, "Balance": 1,
    "BlockHash": 1, "Address": 0, "Origin": 0, "Caller": 0, "CallValue": 0, "CallDataSize": 0,
    "CodeSize": 0, "GasPrice": 0, "ReturnDataSize": 0, "Coinbase": 0, "Timestamp": 0, "Number": 0,
    "Difficulty": 0, "GasLimit": 0, "ChainId": 0, "SelfBalance": 0, "BaseFee": 0, "MSize": 0, "Gas": 0,
    "Create": 3, "Create2": 4, "CallCode": 7, "Call": 7, "StaticCall": 6, "DelegateCall": 6,
}
PURE = ["Add", "Mul", "Sub", "Div", "SDiv", "Mod", "SMod", "AddMod", "MulMod", "Lt", "Gt", "SLt", "SGt",
        "Eq", "And", "Or", "Xor", "Byte", "Shl", "Shr", "Sar", "SignExtend", "IsZero", "Not"]
W = 1 << 256


# ---------------------------------------------------------------- expressions
def var(k):
    return ("var", k)


def const(v):
    return ("c", v)


def pc(n):
    return ("pc", n)


def node(name, *args):
    assert SYMS[name] == len(args), name
    return (name, list(args))


def to_req(e):
    if e[0] == "var":
        return f"var{e[1]}"
    if e[0] == "c":
        return "c_%x" % e[1]
    if e[0] == "pc":
        return f"pc_{e[1]}"
    return e[0] + "(" + ",".join(to_req(a) for a in e[1]) + ")"


def to_coq_syms(e, out):
    if e[0] == "var":
        out.append(f"SVar {e[1]}")
    elif e[0] == "c":
        out.append(f"SConst {e[1]}")
    elif e[0] == "pc":
        out.append(f"SGetPc {e[1]}")
    else:
        out.append("S" + e[0])
        for a in e[1]:
            to_coq_syms(a, out)
    return out


def to_coq(e):
    return "run_z3term [" + "; ".join(to_coq_syms(e, [])) + "]"


def has_exp(e):
    return e[0] == "Exp" or (e[0] in SYMS and any(has_exp(a) for a in e[1]))


def rand_exponent(rng, depth):
    """second child of a random Exp: small literals (the model's term has ~2e leaves), a constant
    that does not fit 64 bits, or an arbitrary (non-literal) expression"""
    k = rng.random()
    if k < 0.45:
        return const(rng.choice([0, 1, 2, 3, 5, 8, 31, 64, 100, 255, 256, 300]))
    if k < 0.55:
        return pc(rng.randrange(0, 300))
    if k < 0.65:
        return const(rng.choice([1 << 64, W - 1, 1 << 255]))
    if k < 0.75:
        return node("Exp", rand_expr(rng, 0), const(0))
    e = rand_expr(rng, max(depth, 1))
    while e[0] in ("c", "pc"):
        e = rand_expr(rng, max(depth, 1))
    return e


def rand_expr(rng, depth, allow_exp=True):
    r = rng.random()
    if depth == 0 or r < 0.25:
        k = rng.random()
        if k < 0.55:
            return var(rng.randrange(1, 18))
        if k < 0.8:
            return const(rng.choice([0, 1, 2, 8, 31, 32, 255, 256, 1 << 64, (1 << 255), W - 1, W - 2,
                                     rng.randrange(W), rng.randrange(1 << 70)]))
        if k < 0.85:
            return pc(rng.randrange(65536))
        names = [n for n, a in SYMS.items() if a == 0]
        return node(rng.choice(names))
    names = [n for n, a in SYMS.items() if a > 0 and (allow_exp or n != "Exp")]
    if rng.random() < 0.7:
        names = [n for n in names if n in PURE or n in ("SLoad", "CallDataLoad", "Keccak256", "Exp")]
    n = rng.choice(names)
    if n == "Exp":
        return node(n, rand_expr(rng, depth - 1, allow_exp), rand_exponent(rng, depth - 1))
    return node(n, *[rand_expr(rng, depth - 1, allow_exp) for _ in range(SYMS[n])])


def build_cases(rng, tier):
    cases = []
    # every symbol with distinct variables
    for name, ar in SYMS.items():
        cases.append(("symbol", node(name, *[var(i + 1) for i in range(ar)])))
    # every symbol as the SECOND operand of a binary node and as the middle operand of a ternary node:
    # an arm that consumes one operand too many or too few corrupts its already translated sibling
    for name, ar in SYMS.items():
        if name in ("Exp",):
            continue
        inner = node(name, *[var(i + 1) for i in range(ar)])
        cases.append(("second-operand", node("Sub", var(9), inner)))
        cases.append(("middle-operand", node("AddMod", var(10), inner, var(11))))
    # leaves
    for k in (1, 2, 9, 16, 17):
        cases.append(("leaf", var(k)))
    for v in (0, 1, 0xff00, (1 << 64) - 1, 1 << 64, 1 << 255, W - 1,
              0xabcdef0123456789aabbccddeeff001122334455667788999876543210fedcba):
        cases.append(("leaf", const(v)))
    for n in (0, 7, 65535):
        cases.append(("leaf", pc(n)))
    # fixed nested expressions: argument order, counter threading, constants inside operators
    a, b, c = var(1), var(2), var(3)
    fixed = [
        node("Sub", node("Add", a, b), node("Mul", b, c)),
        node("Byte", const(31), node("Shl", const(8), a)),
        node("Byte", const(1 << 253), a),
        node("SignExtend", const(0), node("Add", a, b)),
        node("SignExtend", node("Byte", a, b), node("Sar", c, a)),
        node("AddMod", const(W - 1), const(W - 1), const(W - 2)),
        node("MulMod", node("Add", a, b), const(W - 1), node("Sub", c, const(1))),
        node("SMod", node("SDiv", a, b), node("Not", c)),
        node("Add", node("SLoad", a), node("SLoad", b)),
        node("Add", node("SLoad", node("MLoad", a)), node("Gas")),
        node("Keccak256", node("MSize"), node("SelfBalance")),
        node("Call", node("Gas"), a, node("SLoad", b), const(0), const(32), node("MLoad", c), const(64)),
        node("Sub", node("CallDataLoad", node("Add", a, const(4))), node("BlockHash", node("Number"))),
        node("IsZero", node("Eq", node("Shr", const(224), node("CallDataLoad", const(0))), const(0x23b872dd))),
        node("Lt", node("Create", a, node("Balance", b), node("ExtCodeSize", c)), node("ReturnDataSize")),
        # Exp, literal exponent: products; 0 gives the literal 1
        node("Exp", a, const(0)), node("Exp", a, const(1)), node("Exp", a, const(2)), node("Exp", a, const(3)),
        node("Exp", a, const(255)), node("Exp", a, const(256)), node("Exp", a, const(0x1001)), node("Exp", a, const(4095)),
        node("Exp", const(0), const(0)), node("Exp", const(2), const(255)), node("Exp", a, pc(5)),
        node("Exp", node("Add", a, const(2)), const(6)),
        node("Exp", node("SLoad", a), const(5)),
        node("Exp", a, node("Exp", b, const(0))),                 # exponent x**0 is the literal 1
        node("Add", node("Exp", a, const(10)), node("Exp", b, a)),
        # Exp, any other exponent: a fresh constant, created after those of the children
        node("Exp", a, b),
        node("Exp", a, node("Add", const(1), const(2))),          # compound constant: not a literal
        node("Exp", a, const(1 << 64)),                           # does not fit 64 bits
        node("Exp", a, const(W - 1)),
        node("Exp", node("Add", a, const(2)), node("SLoad", b)),
        node("Add", node("Exp", node("SLoad", a), node("MLoad", b)), node("Gas")),
        node("Add", node("Exp", a, b), node("Exp", b, a)),
        node("Exp", a, node("Exp", b, const(1))),                 # exponent x**1 is a product, not a literal
        node("Xor", node("Or", a, node("And", b, c)), node("Gt", a, node("SGt", b, node("SLt", c, a)))),
        node("DelegateCall", node("Gas"), node("Address"), a, b, c, node("Caller")),
    ]
    cases += [("nested", e) for e in fixed]
    n_rand = 120 if tier == "thorough" else 30
    for i in range(n_rand):
        cases.append(("random", rand_expr(rng, rng.choice([1, 2, 2, 3]))))
    return cases


# ---------------------------------------------------------------- SMT-LIB text utilities
TOKEN = re.compile(r"\(|\)|\|[^|]*\||[^\s()]+")


def parse_sexprs(text):
    toks = TOKEN.findall(text)
    pos = 0

    def rd():
        nonlocal pos
        t = toks[pos]
        pos += 1
        if t == "(":
            l = []
            while toks[pos] != ")":
                l.append(rd())
            pos += 1
            return l
        if t == ")":
            raise ValueError("unbalanced")
        return t
    out = []
    while pos < len(toks):
        out.append(rd())
    return out


def expand_lets(t, env):
    if isinstance(t, str):
        return env.get(t, t)
    if t and t[0] == "let":
        env2 = dict(env)
        for name, val in t[1]:
            env2[name] = expand_lets(val, env)
        return expand_lets(t[2], env2)
    return [expand_lets(x, env) for x in t]


def normalise(t):
    """literals -> ('bv', value, width); concat of literals folded."""
    if isinstance(t, str):
        if t.startswith("#x"):
            return ("bv", int(t[2:], 16), 4 * (len(t) - 2))
        if t.startswith("#b"):
            return ("bv", int(t[2:], 2), len(t) - 2)
        return t
    if len(t) == 3 and t[0] == "_" and isinstance(t[1], str) and re.fullmatch(r"bv\d+", t[1]):
        return ("bv", int(t[1][2:]), int(t[2]))
    l = [normalise(x) for x in t]
    if l and l[0] == "concat" and len(l) == 3 and all(isinstance(x, tuple) and x[0] == "bv" for x in l[1:]):
        return ("bv", (l[1][1] << l[2][2]) | l[2][1], l[1][2] + l[2][2])
    return l


FRESH = re.compile(r"([A-Za-z_0-9]+)!(\d+)")


def rename_fresh(text):
    """`prefix!N` -> `prefix!<rank of N among the fresh ids of the text>` (order of creation).
    `a!N` are the names z3's printer gives to let-bound terms, not constants."""
    ids = sorted({int(m.group(2)) for m in FRESH.finditer(text) if m.group(1) != "a"})
    rank = {n: i for i, n in enumerate(ids)}
    return FRESH.sub(lambda m: m.group(0) if m.group(1) == "a" else f"{m.group(1)}!{rank[int(m.group(2))]}", text)


OPERATORS = {"bvadd", "bvsub", "bvmul", "bvudiv", "bvsdiv", "bvurem", "bvsrem", "bvsmod", "bvand", "bvor", "bvxor",
             "bvnot", "bvneg", "bvshl", "bvlshr", "bvashr", "concat", "ite", "=", "not", "and", "or", "distinct",
             "bvult", "bvugt", "bvslt", "bvsgt", "bvule", "bvuge", "bvsle", "bvsge", "^", "bv2int", "let", "_",
             "zero_extend", "extract", "int2bv", "true", "false"}


def symbols_of(t, consts, funs):
    if isinstance(t, str):
        if t not in OPERATORS and not re.fullmatch(r"\d+|bv\d+|#x[0-9a-fA-F]+|#b[01]+", t):
            consts.add(t)
        return
    if not t:
        return
    if isinstance(t[0], str) and t[0] not in OPERATORS and len(t) > 1:
        funs.add((t[0], len(t) - 1))
        for x in t[1:]:
            symbols_of(x, consts, funs)
        return
    for x in t:
        symbols_of(x, consts, funs)


def rust_parts(text):
    """(declared names, result term tree) of the implementation's script."""
    forms = parse_sexprs(text)
    declared = set()
    term = None
    for f in forms:
        if f[0] == "declare-fun":
            declared.add(f[1])
        elif f[0] == "assert":
            body = expand_lets(f[1], {})
            if body[0] == "=" and body[1] == "verif_result":
                term = body[2]
    return declared, term


def make_script(rust_text, model_term):
    declared = set(re.findall(r"\(declare-fun\s+(\S+)", rust_text))
    consts, funs = set(), set()
    symbols_of(parse_sexprs(model_term)[0], consts, funs)
    extra = []
    for c in sorted(consts - declared):
        extra.append(f"(declare-fun {c} () (_ BitVec 256))")
    for f, ar in sorted(funs):
        if f not in declared:
            extra.append(f"(declare-fun {f} ({' '.join(['(_ BitVec 256)'] * ar)}) (_ BitVec 256))")
    return "\n".join([rust_text] + extra + [
        "(declare-fun model_result () (_ BitVec 256))",
        f"(assert (= model_result {model_term}))",
        "(assert (distinct verif_result model_result))"])


# ---------------------------------------------------------------- z3 child process
CHILD = r'''
import json, sys, time
import z3
cases = json.load(open(sys.argv[1]))
start = int(sys.argv[2])
for i in range(start, len(cases)):
    print(json.dumps({"begin": i}), flush=True)
    t0 = time.time()
    try:
        s = z3.Solver(ctx=z3.Context())
        s.set("timeout", int(sys.argv[3]))
        s.from_string(cases[i])
        r = str(s.check())
        m = ""
        if r == "sat":
            mod = s.model()
            m = ", ".join(f"{d.name()}={mod[d]}" for d in sorted(mod.decls(), key=lambda d: d.name()))
        elif r == "unknown":
            m = s.reason_unknown()
    except Exception as ex:
        r, m = "error", str(ex)[:500]
    print(json.dumps({"i": i, "r": r, "m": m, "s": round(time.time() - t0, 3)}), flush=True)
'''


def z3_refute(scripts, hard_cap=45, timeout_ms=Z3_TIMEOUT_MS):
    """Run the scripts through z3 in a child process; a case on which z3 does not come back
    within hard_cap seconds is reported as unknown and the child is restarted after it."""
    results = [None] * len(scripts)
    if not scripts:
        return results
    with tempfile.TemporaryDirectory() as d:
        cf = os.path.join(d, "cases.json")
        pf = os.path.join(d, "child.py")
        json.dump(scripts, open(cf, "w"))
        open(pf, "w").write(CHILD)
        import selectors
        start = 0
        while start < len(scripts):
            p = subprocess.Popen([Z3_PYTHON, pf, cf, str(start), str(timeout_ms)], stdout=subprocess.PIPE,
                                 stderr=subprocess.DEVNULL)
            fd = p.stdout.fileno()
            sel = selectors.DefaultSelector()
            sel.register(fd, selectors.EVENT_READ)
            current, killed, buf, eof = start, False, b"", False
            while not eof and not killed:
                if not sel.select(timeout=hard_cap):
                    p.kill()
                    results[current] = dict(r="unknown", m=f"z3 did not return within {hard_cap}s (killed)", s=hard_cap)
                    start, killed = current + 1, True
                    break
                chunk = os.read(fd, 65536)      # unbuffered: select and read see the same data
                if not chunk:
                    eof = True
                buf += chunk
                while b"\n" in buf:
                    line, buf = buf.split(b"\n", 1)
                    if not line.startswith(b"{"):
                        continue
                    o = json.loads(line)
                    if "begin" in o:
                        current = o["begin"]
                    else:
                        results[o["i"]] = o
                        start = o["i"] + 1
            p.wait()
            if not killed and start < len(scripts):
                # the child exited before the end: blame the case it was working on
                results[current] = results[current] or dict(r="error", m=f"z3 child died rc={p.returncode}", s=0)
                start = current + 1
    return results


# ---------------------------------------------------------------- the cross-check
# negative controls: the checker must answer `sat` when the model is given a different expression
CONTROLS = [
    (node("Sub", var(1), var(2)), node("Sub", var(2), var(1))),
    (node("SLt", var(1), var(2)), node("Lt", var(1), var(2))),
    (node("Shl", var(1), var(2)), node("Shl", var(2), var(1))),
    (node("Add", node("SLoad", var(1)), node("MLoad", var(2))), node("Add", node("MLoad", var(2)), node("SLoad", var(1)))),
    (node("Exp", var(1), const(1)), node("Exp", var(1), const(2))),
    (node("Exp", var(1), const(5)), node("Exp", var(1), var(2))),
]


def run_ops(run):
    """Returns (disagreements, details): disagreements = cases where the implementation's term and
    the model's term are not proved equal (sat / unknown / error / panic mismatch); details = dict
    with counts, timings and per-case records."""
    t0 = time.time()
    tier = getattr(run, "tier", "quick")
    ok, out, dt = common.build_harness(True)
    if not ok:
        return [dict(expr="<harness build>", verdict="error", detail=out[-2000:])], dict(error="harness build failed")
    cases = build_cases(run.rng, tier)
    exprs = [e for _, e in cases] + [impl for impl, _ in CONTROLS]
    model_exprs = [e for _, e in cases] + [mod for _, mod in CONTROLS]
    impl, rc, raw = common.run_harness(["z3term " + to_req(e) for e in exprs], analyze=True, timeout=600)
    if len(impl) != len(exprs):
        return [dict(expr="<harness>", verdict="error", detail=raw[-2000:])], dict(error="harness died")
    model, errors = common.coq_eval(IMPORTS, [to_coq(e) for e in model_exprs], timeout=600, tag="c05ops")
    records, scripts, script_idx = [], [], []
    for i, e in enumerate(exprs):
        cat = cases[i][0] if i < len(cases) else "control"
        rec = dict(cat=cat, expr=to_req(e), verdict=None, detail="", seconds=0.0, tree=e)
        records.append(rec)
        a, b = impl[i], model[i]
        if b is None:
            rec.update(verdict="error", detail="coq evaluation failed: " + " | ".join(x[-300:] for x in errors[:1]))
            continue
        if not a.startswith("ok:") or not b.startswith("ok:"):
            # both must panic together
            same = a.startswith("panic") and b.startswith("panic")
            rec.update(verdict="unsat" if same else "mismatch", detail=f"impl={a[:80]} model={b[:80]}")
            continue
        rust_text = rename_fresh(bytes.fromhex(a[3:]).decode())
        model_term = rename_fresh(b[3:])
        rec["impl_term"] = rust_text[-400:]
        rec["model_term"] = model_term[:400]
        if "^" in rust_text or "^" in model_term:
            rec.update(verdict="error", detail="integer power in the term: z3 does not decide it (not solved)")
            continue
        rec["method"] = "z3"
        scripts.append(make_script(rust_text, model_term))
        script_idx.append(i)
    for i, res in zip(script_idx, z3_refute(scripts)):
        if res is None:
            records[i].update(verdict="error", detail="no answer from the z3 child")
        else:
            records[i].update(verdict=res["r"], detail=res["m"], seconds=res["s"])
    dis = []
    for rec in records:
        if rec["cat"] == "control":
            if rec["verdict"] != "sat":
                dis.append(dict(rec, detail="negative control not detected: " + str(rec["detail"])))
        elif rec["verdict"] != "unsat":
            dis.append(rec)
    by_cat = {}
    for rec in records:
        by_cat[rec["cat"]] = by_cat.get(rec["cat"], 0) + 1
    details = dict(cases=len(records), by_category=by_cat,
                   solved_by_z3=sum(1 for r in records if r.get("method") == "z3"),
                   exp_cases=sum(1 for r, e in zip(records, exprs) if has_exp(e)),
                   symbols=len(SYMS), slowest=sorted(((r["seconds"], r["expr"]) for r in records), reverse=True)[:3],
                   wall_s=round(time.time() - t0, 1), harness_build_s=round(dt, 1), records=records)
    return dis, details


if __name__ == "__main__":
    tier = "thorough" if "thorough" in sys.argv else "quick"
    run = common.Run("C05", tier, int(os.environ.get("VERIF_SEED", "1")))
    dis, det = run_ops(run)
    recs = det.pop("records", [])
    for r in recs:
        r.pop("tree", None)
    for d in dis:
        d.pop("tree", None)
    if "-v" in sys.argv:
        for r in recs:
            print(f"{r['verdict']:8} {r.get('method', '-'):10} {r['seconds']:6.2f}s {r['cat']:8} {r['expr'][:100]}")
    print(json.dumps(det, indent=1))
    for d in dis:
        print("DISAGREEMENT", json.dumps({k: d[k] for k in ("cat", "expr", "verdict", "detail")}))
        print("   impl :", d.get("impl_term", ""))
        print("   model:", d.get("model_term", ""))
    print(f"c05ops: {len(recs)} cases, {len(dis)} disagreements, {det.get('wall_s')}s")
    sys.exit(1 if dis else 0)
