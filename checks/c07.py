"""C07 -- auto-sized pushes hold their exact value; constants get the minimal width."""
from lib import asmgen as G
from checks import asmfam
from checks.asmfam import mk_case, answer_bytes, answer_kind, replay  # noqa: F401


def spellings(rng, v):
    """the same constant as literals in each radix, arithmetic decompositions, expression macro"""
    out = []
    if v >= 0:
        for radix in (10, 16, 2, 8):
            out.append(("lit%d" % radix, [("push", ("num", v, radix))]))
        a = rng.randrange(0, v + 1) if v > 0 else 0
        out.append(("sum", [("push", G.climb([("num", a), "+", ("num", v - a)]))]))
        if v > 3:
            b = rng.randrange(1, min(v, 1000))
            out.append(("mul", [("push", G.climb([("num", v // b), "*", ("num", b), "+", ("num", v % b)]))]))
        out.append(("paren", [("push", ("paren", ("num", v)))]))
        out.append(("emacro", [("defe", "k", ["x"], G.climb([("var", "x"), "+", ("num", v)])), ("push", ("macro", "k", [("num", 0)]))]))
        out.append(("in-macro", [("defi", "m", ["x"], [("push", ("var", "x"))]), ("macro", "m", [("num", v)])]))
        out.append(("after-label", [("op", "pc", None), ("label", "a"), ("op", "jumpdest", None), ("push", ("num", v))]))
        out.append(("before-label", [("push", ("num", v)), ("label", "a"), ("op", "jumpdest", None), ("op", "push2", ("lbl", "a"))]))
    else:
        out.append(("neg", [("push", G.climb([("num", 0), "-", ("num", -v)]))]))
        out.append(("neglit", [("push", ("num", v))]))
    return out


def gen(run):
    rng = run.rng
    cases = []
    ks = range(0, 34) if run.tier == "thorough" else [0, 1, 2, 3, 8, 16, 31, 32, 33]
    vals = set([0, 1, -1, -255])
    for k in ks:
        for d in (-1, 0, 1):
            vals.add(256 ** k + d)
    for _ in range(40 if run.tier == "thorough" else 8):
        vals.add(rng.getrandbits(rng.randrange(1, 257)))
    for v in sorted(vals):
        for name, prog in spellings(rng, v):
            cases.append(mk_case(prog, name, v=v))
    return cases


def oracle(c, ans):
    if c.get("cascade"):
        return cascade_oracle(c, ans)
    if c.get("mixed"):
        return mixed_oracle(c, ans)
    if c.get("expect_ok"):
        return [] if answer_kind(ans) in ("ok", "panic", "crash") else [f"a well-formed program of auto-sized pushes failed: {ans[:120]}"]
    v = c["v"]
    k = answer_kind(ans)
    if k in ("panic", "crash"):
        return []
    problems = []
    ok_expected = 0 <= v < 2 ** 256
    if ok_expected and k != "ok":
        problems.append(f"%push({v}) should assemble but failed with {k}")
    if not ok_expected and k == "ok":
        problems.append(f"%push({v}) must be an error (negative or needs more than 32 bytes) but assembled")
    if ok_expected and k == "ok":
        items = G.decode(answer_bytes(ans))
        want_w = G.width_of(v)
        hit = [(code, imm) for off, code, imm in items if code == 0x5F + want_w and int.from_bytes(imm, "big") == v]
        if not hit:
            problems.append(f"no push{want_w} (minimal width) holding {v}: got {[(hex(c_), i.hex()) for _, c_, i in items][:6]}")
    return problems


def cascade_oracle(c, ans):
    """label-dependent auto-sized pushes: every `%push(L*m + k)` must hold exactly (offset of the
    sentinel jumpdest after L) * m + k in the assembled bytes, with no leading zero byte unless the
    layout had to keep an earlier, wider choice (so only exactness is demanded)"""
    if answer_kind(ans) != "ok":
        return [f"a well-formed program of auto-sized pushes failed: {ans[:100]}"] if answer_kind(ans) not in ("panic", "crash") else []
    items = G.decode(answer_bytes(ans))
    jd = [o for o, code, imm in items if code == 0x5B]
    if len(jd) != 1:
        return [f"{len(jd)} sentinels decoded"]
    pushes = [int.from_bytes(imm, "big") for o, code, imm in items if 0x60 <= code <= 0x7F][:len(c["cascade"])]
    want = [jd[0] * m + k for m, k in c["cascade"]]
    if pushes != want:
        return [f"auto-sized pushes hold {pushes} but the label is at {jd[0]}: exact values are {want}"]
    return []


def label_dependent_cases(run):
    """cascades and shrinking values: auto-sized pushes whose final width is decided by the layout"""
    from checks import c01
    cases = []
    for prog, order, cat in c01.cascade_programs(run.rng, 30 if run.tier == "thorough" else 14):
        body = prog[:-1]                                   # without C01's probe
        exprs = []
        for o in body:
            if o[0] == "push":
                e = o[1]
                if e[0] == "lbl":
                    exprs.append((1, 0))
                elif e[0] == "+" and e[1][0] == "lbl":
                    exprs.append((1, e[2][1]))
                elif e[0] == "*":
                    exprs.append((e[2][1], 0))
                else:                                          # (L*m)+k
                    exprs.append((e[1][2][1], e[2][1]))
        cases.append(mk_case(body, cat, cascade=exprs))
    # shrinking values: %push(K - L) gets a width in an early round that its final value would not need;
    # the layout keeps the wider choice (labels must not move back) and the bytes must agree with it
    for B in ((256,) if run.tier != "thorough" else (256, 65536)):
        for extra in (0, 1, 2):
            K = 2 * B - 2 + extra
            fill = [("op", "pc", None)] * (B - 6) if B == 256 else [("op", "push32", ("num", 7, 16))] * ((B - 8) // 33) + [("op", "pc", None)] * ((B - 8) % 33)
            body = [("push", G.climb([("num", K), "-", ("lbl", "L")])), ("push", ("lbl", "L"))] + fill + [("label", "L"), ("op", "jumpdest", None)]
            cases.append(mk_case(body, "shrinking", cascade=[(-1, K), (1, 0)]))
            cases.append(mk_case([("defi", "m", [], body), ("macro", "m", [])], "shrinking-in-macro", cascade=[(-1, K), (1, 0)]))
    # constants next to label-dependent pushes: every constant keeps ITS minimal width
    rng = run.rng
    for _ in range(40 if run.tier == "thorough" else 12):
        consts = [rng.choice([0, 1, 255, 256, 65535, 65536, 2 ** 64, 2 ** 128 - 1, 2 ** 255]) for _ in range(rng.randrange(2, 5))]
        lead = [("push", ("lbl", "L"))] * rng.randrange(1, 3)
        body = lead + [("push", ("num", c)) for c in consts] + [("label", "L"), ("op", "jumpdest", None)]
        if rng.random() < 0.5:
            body = [("push", ("num", consts[0]))] + body
            consts = [consts[0]] + consts
        cases.append(mk_case(body, "constants-after-label-push", mixed=consts))
    # a label-dependent push whose value is NEGATIVE in the first layout rounds (all widths still 1) and
    # non-negative in the end: `%push(end - start - K)` with K between the first-round and the final distance
    for _ in range(40 if run.tier == "thorough" else 14):
        consts = [rng.choice([1, 7, 255, 256, 0x112233, 65536, 2 ** 32, 2 ** 64]) for _ in range(rng.randrange(2, 5))]
        if all(G.width_of(c) == 1 for c in consts):
            consts[-1] = 0x112233
        final = 2 + sum(1 + G.width_of(c) for c in consts)           # the leading push stays one byte wide (value < 256)
        first = 2 + 2 * len(consts)
        K = rng.randrange(first + 1, final + 1)
        lead = ("push", G.climb([("lbl", "end"), "-", ("lbl", "start"), "-", ("num", K)]))
        body = [("label", "start"), lead] + [("push", ("num", c)) for c in consts] + [("label", "end"), ("op", "jumpdest", None)]
        if rng.random() < 0.3:
            body = [("defi", "m", [], body), ("macro", "m", [])]
        cases.append(mk_case(body, "constants-after-transiently-negative-push", mixed=consts + [final - K]))
    # %push operands whose value is reached through negative intermediate results (expression macro body or
    # argument), or is too large in the first layout rounds only: the final value decides, at its minimal width
    neg = ("defe", "neg", [], G.climb([("num", 0), "-", ("num", 5)]))
    add = ("defe", "add", ["a", "b"], G.climb([("var", "a"), "+", ("var", "b")]))
    for v in (0, 5, 255, 256, 65535, 2 ** 64, 2 ** 256 - 1):
        cases.append(mk_case([neg, ("push", G.climb([("num", v + 5), "+", ("macro", "neg", [])]))], "negative-intermediate", mixed=[v]))
        cases.append(mk_case([add, ("push", ("macro", "add", [("num", v + 44), G.climb([("num", 0), "-", ("num", 44)])]))], "negative-intermediate", mixed=[v]))
        if v <= 2 ** 64:      # value = end + v, with `end` below 40: must assemble
            cases.append(mk_case([("defe", "below", ["x"], G.climb([("var", "x"), "-", ("num", 300)])),
                                  ("defi", "m", [], [("push", G.climb([("macro", "below", [("lbl", "end")]), "+", ("num", 300 + v)]))]), ("macro", "m", []), ("label", "end"), ("op", "jumpdest", None)],
                                 "negative-intermediate", expect_ok=True))
    for k in (2, 17, 32):
        cases.append(mk_case([("push", G.climb([("num", 2 ** 256 + k), "-", ("lbl", "end")])), ("label", "end"), ("op", "jumpdest", None)], "transiently-too-large", mixed=[2 ** 256 + k - 33]))
    return cases


def mixed_oracle(c, ans):
    if answer_kind(ans) != "ok":
        return [f"a well-formed program of auto-sized pushes failed: {ans[:100]}"] if answer_kind(ans) not in ("panic", "crash") else []
    items = G.decode(answer_bytes(ans))
    pushes = [(code - 0x5F, int.from_bytes(imm, "big")) for o, code, imm in items if 0x60 <= code <= 0x7F]
    got = [(w, v) for w, v in pushes if v in c["mixed"] and G.width_of(v) <= w]
    problems = []
    for v in c["mixed"]:
        if (G.width_of(v), v) not in pushes:
            problems.append(f"constant {v} is not pushed at its minimal width {G.width_of(v)}: pushes are {pushes}")
            break
    return problems


def check(run):
    cases = gen(run) + label_dependent_cases(run)
    return asmfam.run_family(run, "C07", cases, oracle,
                             "shrinking values (%push(K - L) that needs its wider early width no longer at the end: bytes must still agree with the layout); cascades (auto-sized pushes of L*m+k that settle only after several widening rounds: one push growing twice, searched 2-4 push programs needing more rounds than pushes; exact value checked against the decoded position of the label); values 256^k-1, 256^k, 256^k+1 for k=0..33, negatives, random; each in up to 11 spellings (4 radices, sum, product, parenthesised, expression macro, macro argument, before/after labels); constants placed after one or two label-dependent %pushes (each constant must keep its own minimal width), also after a push whose value is negative in the first layout rounds only; distinct = distinct sources",
                             "auto-sized pushes")
