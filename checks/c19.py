"""C19 -- hex input and output adapters are exact for every chunking."""
import itertools

from lib import common
from lib.common import coq_bytes

IMPORTS = "From Verif Require Import Model.Base Model.Hex."

TRUSTED = [
    "Coq 8.16.1 kernel incl. vm_compute; axioms: none",
    "Model/Hex.v is a hand-written model of HexRead::read / HexWrite::write / std write_all and of hex::{encode,decode_to_slice} 0.4.3 "
    "(hexbuffer as an explicit list, the slice advance as skipn); tied to the code by differential runs over scripted readers and sinks",
    "the scripted reader/sink of harness/src/hexio.rs (fragment schedule clamped to >= 1, Ok(0) only at the end of the text) and its Coq twin rd_read / sink_write",
    "etk_cli::io::verif_hex_read (feature verif-hooks) returns the private HexRead unchanged",
    "harness crate etk-vh and python driver; the python reference decoder/encoder is used only for the counter-example search",
]

WS = [0x09, 0x0A, 0x0B, 0x0C, 0x0D, 0x20, 0x85, 0xA0]
HB = common.harness_bin(False)


# ------------------------------------------------------------------ independent reference
def hv(c):
    if 0x30 <= c <= 0x39:
        return c - 0x30
    if 0x61 <= c <= 0x66:
        return c - 0x61 + 10
    if 0x41 <= c <= 0x46:
        return c - 0x41 + 10
    return None


def spec(text):
    """(bytes denoted by the longest well-formed prefix, is the whole text well formed)"""
    t = list(text)
    if t[:2] == [0x30, 0x78]:
        t = t[2:]
    out, i = [], 0
    while len(t) - i >= 2:
        a, b = hv(t[i]), hv(t[i + 1])
        if a is None or b is None:
            return out, False
        out.append(a * 16 + b)
        i += 2
    if len(t) - i == 1:
        return out, t[i] in WS
    return out, True


def oracle_read(text, answer):
    """The property itself, on the implementation's answer."""
    try:
        out, end, calls = answer.split(" ")
        got = list(bytes.fromhex(out)) if out != "-" else []
    except Exception:
        return [f"unparsable answer {answer!r}"]
    bs, ok = spec(text)
    problems = []
    if ok:
        if got != bs:
            problems.append(f"well-formed text decoded to {bytes(got).hex()} instead of {bytes(bs).hex()}")
        if end != "end=eof":
            problems.append(f"well-formed text ended with {end}")
    else:
        if not end.startswith("end=err(InvalidData"):
            problems.append(f"malformed text ended with {end} (no error)")
        if got != bs[:len(got)]:
            problems.append(f"bytes {bytes(got).hex()} delivered before the error are not a prefix of {bytes(bs).hex()}")
    return problems


def oracle_write(data, accept, mode, answer):
    text = bytes(data).hex()
    ret, sink = answer.split(" ")
    got = bytes.fromhex(sink[5:]).decode("latin1") if sink != "sink=-" else ""
    problems = []
    if mode == "one":
        k = min(accept[0], len(text)) if accept else len(text)
        if got != text[:k]:
            problems.append(f"sink received {got!r}, offered {text!r}, accepts {k}")
        if k % 2 == 0:
            if ret != f"ok({k // 2})":
                problems.append(f"sink accepted {k} characters but write returned {ret}")
        elif not ret.startswith("err(Other"):
            problems.append(f"sink accepted an odd number of characters ({k}) but write returned {ret}")
    else:
        # replay write_all against the schedule
        pos, i, want = 0, 0, None
        while pos < len(data):
            rest = 2 * (len(data) - pos)
            k = min(accept[i], rest) if i < len(accept) else rest
            i += 1
            if k % 2:
                want = ("err(Other:-)", 2 * pos + k)
                break
            if k == 0:
                want = ("err(WriteZero:-)", 2 * pos)
                break
            pos += k // 2
        if want is None:
            want = ("ok(all)", len(text))
        if ret != want[0]:
            problems.append(f"write_all returned {ret}, expected {want[0]}")
        if got != text[:want[1]]:
            problems.append(f"sink holds {got!r}, expected {text[:want[1]]!r}")
        if ret == "ok(all)" and got != text:
            problems.append("write_all succeeded but the sink does not hold hex(data)")
    return problems


# ------------------------------------------------------------------ case construction
def natlist(l):
    return "[" + "; ".join(str(x) for x in l) + "]"


def nums(l):
    return ",".join(str(x) for x in l) if l else "-"


def read_case(text, frags, bufs, cat):
    text = list(text)
    return dict(kind="read", text=text, frags=list(frags), bufs=list(bufs), cat=cat,
                req=f"hexread {bytes(text).hex() or '-'} {nums(frags)} {nums(bufs)}",
                coq=f"run_hexread {coq_bytes(text)} {natlist(frags)} {natlist(bufs)}")


def write_case(data, accept, mode, cat):
    return dict(kind="write", data=list(data), accept=list(accept), mode=mode, cat=cat,
                req=f"hexwrite {bytes(data).hex() or '-'} {nums(accept)} {mode}",
                coq=f"run_hexwrite {coq_bytes(data)} {natlist(accept)} {'true' if mode == 'all' else 'false'}")


def compositions(n):
    if n == 0:
        yield []
        return
    for k in range(1, n + 1):
        for r in compositions(n - k):
            yield [k] + r


def frag_styles(rng, n, has_prefix):
    """fragment schedules for a text of n characters"""
    out = [("whole", []), ("1-byte", [1] * (n + 1))]
    out.append(("random", [rng.choice([1, 1, 2, 3, 4, 5, 7, 16]) for _ in range(rng.randrange(1, n + 2))]))
    out.append(("split-0x" if has_prefix else "split-first", [1, rng.choice([1, 2, 3, 5])] + [rng.choice([1, 2, 4, 6]) for _ in range(n)]))
    out.append(("split-pair", [3] + [rng.choice([1, 2, 3, 5]) for _ in range(n)]))
    out.append(("odd-frags", [rng.choice([1, 3, 5]) for _ in range(n + 1)]))
    out.append(("zero-entries", [rng.choice([0, 0, 1, 2]) for _ in range(n + 1)]))   # clamped to 1 by the reader
    return out


def buf_styles(rng):
    return [("b1", [1]), ("b2", [2]), ("b3", [3]), ("b-default", []), ("b-big", [rng.choice([17, 64, 200])]),
            ("b-mix", [rng.choice([1, 1, 2, 3, 4, 7]) for _ in range(rng.randrange(2, 6))])]


def valid_text(rng, nbytes):
    body = [rng.randrange(256) for _ in range(nbytes)]
    case = rng.choice(["lower", "upper", "mixed"])
    h = bytes(body).hex()
    if case == "upper":
        h = h.upper()
    elif case == "mixed":
        h = "".join(c.upper() if rng.random() < 0.5 else c for c in h)
    pre = rng.random() < 0.5
    ws = rng.choice([None, None] + WS)
    text = ([0x30, 0x78] if pre else []) + [ord(c) for c in h] + ([ws] if ws is not None else [])
    return text, pre, f"valid/{case}/{'0x' if pre else 'nopre'}/{'ws' if ws is not None else 'nows'}"


def malformed_texts(rng):
    out = []
    h = lambda n: [ord(c) for c in bytes(rng.randrange(256) for _ in range(n)).hex()]
    for n in (0, 1, 2, 5):
        out.append(("odd", h(n) + [rng.choice(b"0123456789abcdefABCDEF")]))
        out.append(("odd-0x", [0x30, 0x78] + h(n) + [rng.choice(b"0123456789abcdef")]))
        out.append(("odd-ws", h(n) + [rng.choice(b"09afAF"), rng.choice(WS)]))
    for n in (1, 2, 4, 9):
        t = h(n)
        t[rng.randrange(len(t))] = rng.choice(b"gGxXzZ/:@`{ \n\t") if rng.random() < 0.8 else rng.choice([0, 0x7F, 0x80, 0x85, 0xA0, 0xFF])
        out.append(("non-hex", t))
        t = h(n)
        t.insert(rng.randrange(0, len(t)), rng.choice(WS))
        out.append(("inner-ws", t + h(1)))
        t = h(n)
        k = 2 * rng.randrange(0, n)
        out.append(("inner-ws-aligned", t[:k] + [rng.choice(WS)] + t[k:] + [rng.choice(WS)]))
        out.append(("double-trailing-ws", h(n) + [rng.choice(WS), rng.choice(WS)]))
        out.append(("crlf", [0x30, 0x78] + h(n) + [0x0D, 0x0A]))
    out += [("tiny", t) for t in ([0x30], [0x78], [0x30, 0x78], [0x30, 0x58], [0x30, 0x58, 0x31, 0x32], [0x30, 0x78, 0x30, 0x78, 0x31, 0x32],
                                  [0x0A], [0x0A, 0x0A], [0x30, 0x78, 0x0A], [0x30, 0x78, 0x20, 0x20], [0x30, 0x0A], [0x78, 0x30], [0x30, 0x78, 0x78],
                                  [], [0x20, 0x30, 0x78, 0x31, 0x32], [0x30, 0x78, 0x31], [0x30, 0x30, 0x78], [0x85], [0xA0], [0x1C], [0x30, 0x78, 0x31, 0x32, 0x85])]
    return out


def build_cases(run):
    rng = run.rng
    cases = []
    thorough = run.tier == "thorough"
    # ---- reader: valid texts
    lens = list(range(0, 21)) + [rng.randrange(0, 21) for _ in range(40 if thorough else 6)]
    for nbytes in lens:
        for _ in range(3 if thorough else 1):
            text, pre, cat = valid_text(rng, nbytes)
            fs = frag_styles(rng, len(text), pre)
            bs = buf_styles(rng)
            for fname, frags in fs:
                picks = bs if thorough else rng.sample(bs, 5)
                for bname, bufs in picks:
                    cases.append(read_case(text, frags, bufs, f"read/{cat.split('/')[0]}/{fname}/{bname}"))
    # ---- reader: long texts (several KiB: internal buffer sizes, std's 8 KiB default buffers)
    for nbytes in ((300, 5000, 9000) if not thorough else (300, 5000, 9000, 40000)):
        text, pre, cat = valid_text(rng, nbytes)
        n = len(text)
        frag_sets = [("whole", [n]), ("4096", [4096] * (n // 4096 + 1)), ("8191", [8191] * (n // 8191 + 1)), ("odd-77", [77] * (n // 77 + 1))]
        for fname, frags in frag_sets:
            for bname, bufs in (("8192", [8192]), ("4097", [4097]), ("3", [3])):
                cases.append(read_case(text, frags, bufs, f"read/long/{fname}/{bname}"))
    # ---- reader: malformed stream
    for _ in range(4 if thorough else 2):
        for cat, text in malformed_texts(rng):
            fs = frag_styles(rng, len(text), text[:2] == [0x30, 0x78])
            for fname, frags in (fs if thorough else rng.sample(fs, 4)):
                for bname, bufs in rng.sample(buf_styles(rng), 2):
                    cases.append(read_case(text, frags, bufs, f"read/malformed-{cat}/{fname}/{bname}"))
    # ---- reader: a zero-sized caller buffer (Ok(0) at once; outside the property, correspondence only)
    for bufs in ([0], [2, 0], [1, 1, 0]):
        cases.append(read_case([0x61, 0x62, 0x63, 0x64, 0x65, 0x66], [], bufs, "read/zero-buffer"))
    # ---- reader: exhaustive over ALL fragmentations, small scope
    alpha = [0x30, 0x78, 0x61, 0x0A]
    maxlen = 7 if thorough else 5
    sample_p = 0.05 if thorough else 0.12
    for L in range(maxlen + 1):
        for t in itertools.product(alpha, repeat=L):
            if not thorough and rng.random() > 0.25 and L >= 4:
                continue
            for c in compositions(L):
                if L >= 4 and rng.random() > sample_p:
                    continue
                cases.append(read_case(t, c, [rng.choice([1, 2, 3])], "read/small-scope-compositions"))
    # ---- writer
    for nbytes in list(range(0, 9)) + [13, 20, 33]:
        data = [rng.randrange(256) for _ in range(nbytes)]
        scheds = [("whole", []), ("even", [rng.choice([2, 4, 6, 10]) for _ in range(nbytes + 1)]),
                  ("odd-first", [rng.choice([1, 3, 5, 7])]), ("zero-first", [0]),
                  ("even-then-odd", [2, 4, rng.choice([1, 3])]), ("even-then-zero", [2, 2, 0, 4]),
                  ("random", [rng.randrange(0, 9) for _ in range(rng.randrange(1, 6))]),
                  ("exact", [2 * nbytes]), ("exact+1", [2 * nbytes + 1]), ("exact-1", [max(0, 2 * nbytes - 1)]),
                  ("twos", [2] * (nbytes + 2))]
        for sname, acc in scheds:
            for mode in ("one", "all"):
                cases.append(write_case(data, acc, mode, f"write/{mode}/{sname}"))
    # long writes (internal chunking of the encoder) into sinks that accept only part of what is offered
    for nbytes in ((513, 600, 1500) if not thorough else (513, 600, 1500, 5000, 20000)):
        data = [rng.randrange(256) for _ in range(nbytes)]
        for sname, acc in (("whole", []), ("100s", [100] * (nbytes // 25 + 4)), ("1024s", [1024] * (nbytes // 256 + 4)),
                           ("1022-then-rest", [1022]), ("2s", [2] * 40 + [200] * (nbytes // 50 + 4)), ("big-then-odd", [1000, 7])):
            for mode in ("one", "all"):
                cases.append(write_case(data, acc, mode, f"write-long/{mode}/{sname}"))
    for b in ([0x00], [0x0F], [0xF0], [0xFF], [0x9A], [0xA9], list(range(0, 256, 17)), list(range(256))):
        cases.append(write_case(b, [], "all", "write/all/digits"))
    return cases


def exhaustive_oracle(run, maxlen, alpha, bufsets, batch=500000):
    """Every text over `alpha` up to `maxlen` characters x every fragmentation x buffer sizes:
    implementation against the python reference only (too many for vm_compute)."""
    total, bad = 0, []
    reqs, texts = [], []

    def flush():
        nonlocal total, reqs, texts
        if not reqs:
            return
        ans, rc, raw = common.run_harness(reqs, timeout=1200)
        total += len(reqs)
        if len(ans) != len(reqs):
            bad.append(dict(req=reqs[0] + " ... (batch)", impl=f"harness returned {len(ans)} answers for {len(reqs)} requests",
                            problems=["harness died"], text=[]))
        else:
            for r, t, a in zip(reqs, texts, ans):
                pr = oracle_read(t, a)
                if pr and len(bad) < 50:
                    bad.append(dict(req=r, impl=a, problems=pr, text=list(t)))
        reqs, texts = [], []

    comps = {L: [nums(c) for c in compositions(L)] for L in range(maxlen + 1)}
    for L in range(maxlen + 1):
        for t in itertools.product(alpha, repeat=L):
            h = bytes(t).hex() or "-"
            for c in comps[L]:
                for b in bufsets:
                    reqs.append(f"hexread {h} {c} {b}")
                    texts.append(t)
            if len(reqs) >= batch:
                flush()
    flush()
    return total, bad


def check(run):
    proof_ok = run.prove()
    ok, out, dt = common.build_harness(False)
    if not ok:
        run.violation_unproved("harness-build", out)
        return run.finish(trusted=TRUSTED)
    cases = build_cases(run)
    dis = common.correspond(run, cases, IMPORTS, tag="c19")
    # ---- end to end: what HexWrite handed to the sink, read back through HexRead
    rng = run.rng
    rt = []
    for c in cases:
        if c["kind"] == "write" and c["mode"] == "all" and (c["impl"] or "").startswith("ok(all)"):
            sink = c["impl"].split("sink=")[1]
            text = list(bytes.fromhex(sink)) if sink != "-" else []
            n = len(text)
            for frags in ([], [1] * (n + 1), [rng.choice([1, 2, 3, 5]) for _ in range(n + 1)]):
                k = read_case(text, frags, [rng.choice([1, 2, 3, 8])], "roundtrip/write_all-then-read")
                k["expect"] = c["data"]
                rt.append(k)
    dis += common.correspond(run, rt, IMPORTS, tag="c19rt")
    run.corr["rule"] = ("hexread: valid texts (0..20 bytes, lower/upper/mixed case, with/without 0x, with/without one trailing whitespace of 8 kinds) and a "
                        "malformed stream (odd, non-hex, inner/double whitespace, tiny texts) x fragment schedules (whole, 1-byte, random, split in 0x, "
                        "split in a pair, zero entries) x buffer sizes (1, 2, 3, default, big, mixes); all compositions of small texts over {0,x,a,\\n}; "
                        "hexwrite: data x accept schedules (whole, even, odd, zero, exact+-1, random) x {one, all}; long writes (513..1500 bytes, 20000 in the thorough tier) into sinks that accept an even part; write_all output read back. "
                        "distinct = distinct request lines; non-trivial = all")
    # ---- property oracle on the implementation's answers
    found = 0

    def report(c, problems):
        nonlocal found
        found += 1
        if found <= 3:
            run.violation(dict(property="C19", request=c["req"], impl=c.get("impl"), problems=problems,
                               replay=f"echo '{c['req']}' | .cache/target/debug/etk-vh"))

    for c in cases + rt:
        a = c["impl"]
        if a is None or a.startswith("panic") or a.startswith("crash"):
            report(c, [f"implementation crashed: {a}"])
            continue
        if c["kind"] == "read":
            if any(b == 0 for b in c["bufs"]):
                continue
            pr = oracle_read(c["text"], a)
            if not pr and "expect" in c:
                got = a.split(" ")[0]
                if (list(bytes.fromhex(got)) if got != "-" else []) != c["expect"]:
                    pr = [f"round trip: wrote {bytes(c['expect']).hex()}, read back {got}"]
        else:
            pr = oracle_write(c["data"], c["accept"], c["mode"], a)
        if pr:
            report(c, pr)
    # ---- exhaustive small scope against the reference (implementation only)
    if run.tier == "thorough":
        n1, bad1 = exhaustive_oracle(run, 8, [0x30, 0x78, 0x61, 0x0A], ["1", "2", "3"])
        n2, bad2 = exhaustive_oracle(run, 5, [0x30, 0x78, 0x61, 0x46, 0x0A, 0x67, 0xA0], ["1", "2", "3", "1,2", "2,1,3"])
    else:
        n1, bad1 = exhaustive_oracle(run, 6, [0x30, 0x78, 0x61, 0x0A], ["1", "2", "3"])
        n2, bad2 = exhaustive_oracle(run, 4, [0x30, 0x78, 0x61, 0x46, 0x0A, 0x67, 0xA0], ["1", "2,1,3"])
    run.notes.append(f"exhaustive oracle (implementation vs python reference, all compositions): {n1} + {n2} runs, {len(bad1) + len(bad2)} failures")
    run.log(run.notes[-1])
    for b in (bad1 + bad2):
        report(b, b["problems"])
    if (not proof_ok or dis) and not found:
        if dis:
            d = dis[0]
            run.log(f"DISAGREE {d['req']}: impl={d['impl']!r} model={d['model']!r}")
            run.violation_unproved("correspondence Model/Hex.v vs etk-cli io.rs", dict(request=d["req"], impl=d["impl"], model=d["model"], n=len(dis)))
        else:
            run.violation_unproved("theorems of Props/C19.v", run.proof["log"])
    return run.finish(trusted=TRUSTED)


def replay(obj):
    print(obj)
    if "replay" in obj:
        rc, out = common.sh(obj["replay"], cwd=common.VERIF)
        print(out)
    return 0
