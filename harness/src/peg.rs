//! The pest statement parser on its own (PEG model correspondence, C02 / C14).

use crate::unhex;

/// `peg <src hex>`: `err` or the pre-order list `rule:start-end` of `pairs.flatten()` (verif-hooks)
fn peg(args: &[&str]) -> String {
    let src = String::from_utf8(unhex(args[0])).expect("harness: source not utf8");
    etk_asm::verif_parse_pairs(&src)
}

pub fn dispatch(cmd: &str, args: &[&str]) -> Option<String> {
    match cmd {
        "peg" => Some(peg(args)),
        _ => None,
    }
}
