//! Operand expressions (C08): the syntax tree that the parser builds for a push operand.

use crate::unhex;

/// The `Debug` rendering of the `Imm { tree: .. }` of every `push<N> <expr>` / `%push(<expr>)` in a
/// node's Debug string (the expression part only, the Node/AbstractOp/Op/PushN wrappers are dropped).
fn trees(node: &str) -> Vec<String> {
    let mut out = Vec::new();
    let marker = "Imm { tree: ";
    let mut rest = node;
    while let Some(i) = rest.find(marker) {
        let s = &rest[i + marker.len()..];
        // the tree ends at the " }" that closes the Imm: expression Debug strings contain no braces
        let end = s.find(" }").unwrap_or(s.len());
        out.push(s[..end].to_string());
        rest = &s[end..];
    }
    out
}

/// `expr_debug <src hex>`: `ok:<tree>|<tree>..` for the operands of the source in order, or
/// `err:Parse.<Kind>()` when the source does not parse (verif-hooks: etk_asm::verif_parse_debug).
fn expr_debug(args: &[&str]) -> String {
    let src = String::from_utf8(unhex(args[0])).expect("harness: source not utf8");
    match etk_asm::verif_parse_debug(&src) {
        Ok(nodes) => {
            let all: Vec<String> = nodes.iter().flat_map(|n| trees(n)).collect();
            format!("ok:{}", all.join("|"))
        }
        Err(e) => format!("err:Parse.{}()", e.split_whitespace().next().unwrap_or("?")),
    }
}

pub fn dispatch(cmd: &str, args: &[&str]) -> Option<String> {
    match cmd {
        "expr_debug" => Some(expr_debug(args)),
        _ => None,
    }
}
