//! Hex adapters (C19): HexWrite over a scripted sink, HexRead (through the verif-hooks
//! accessor) over a scripted fragmenting reader.

use crate::{tohex, unhex};
use etk_cli::io::HexWrite;
use std::io::{self, Read, Write};

/// A reader that hands out its data in the given fragment sizes (then whatever is asked).
struct FragReader {
    data: Vec<u8>,
    pos: usize,
    frags: Vec<usize>,
    k: usize,
}

impl Read for FragReader {
    fn read(&mut self, buf: &mut [u8]) -> io::Result<usize> {
        let left = self.data.len() - self.pos;
        let want = if self.k < self.frags.len() {
            let f = self.frags[self.k];
            self.k += 1;
            f.max(1)
        } else {
            usize::MAX
        };
        let n = want.min(buf.len()).min(left);
        buf[..n].copy_from_slice(&self.data[self.pos..self.pos + n]);
        self.pos += n;
        Ok(n)
    }
}

/// A sink that accepts, on its k-th write call, at most `accept[k]` bytes (then everything).
struct ScriptSink {
    got: Vec<u8>,
    accept: Vec<usize>,
    k: usize,
}

impl Write for ScriptSink {
    fn write(&mut self, buf: &[u8]) -> io::Result<usize> {
        let lim = if self.k < self.accept.len() {
            let a = self.accept[self.k];
            self.k += 1;
            a
        } else {
            usize::MAX
        };
        let n = lim.min(buf.len());
        self.got.extend_from_slice(&buf[..n]);
        Ok(n)
    }
    fn flush(&mut self) -> io::Result<()> {
        Ok(())
    }
}

fn nums(s: &str) -> Vec<usize> {
    if s == "-" {
        vec![]
    } else {
        s.split(',').map(|x| x.parse().unwrap()).collect()
    }
}

/// `<kind>:<inner>` of an io::Error; inner = the hex::FromHexError it wraps (or `-`).
fn show_err(e: &io::Error) -> String {
    let inner = match e.get_ref().and_then(|r| r.downcast_ref::<hex::FromHexError>()) {
        Some(hex::FromHexError::OddLength) => "OddLength".to_string(),
        Some(hex::FromHexError::InvalidStringLength) => "InvalidStringLength".to_string(),
        Some(hex::FromHexError::InvalidHexCharacter { c, index }) => {
            format!("InvalidHexCharacter({},{})", *c as u32, index)
        }
        None => "-".to_string(),
    };
    format!("err({:?}:{})", e.kind(), inner)
}

/// `hexread <text hex> <frags> <bufsizes>`: read until Ok(0) or Err, cycling through bufsizes
/// (64 when none are given).
/// answer: `<bytes hex> end=eof|err(<kind>:<inner>) calls=<n>`
fn hexread(args: &[&str]) -> String {
    let text = unhex(args[0]);
    let frags = nums(args[1]);
    let bufs = nums(args[2]);
    let rdr = FragReader { data: text, pos: 0, frags, k: 0 };
    let mut hr = etk_cli::io::verif_hex_read(rdr);
    let mut out = vec![];
    let mut calls = 0usize;
    let end;
    loop {
        let sz = if bufs.is_empty() { 64 } else { bufs[calls % bufs.len()] };
        let mut b = vec![0u8; sz];
        calls += 1;
        match hr.read(&mut b) {
            Ok(0) => {
                end = "eof".to_string();
                break;
            }
            Ok(n) => out.extend_from_slice(&b[..n]),
            Err(e) => {
                end = show_err(&e);
                break;
            }
        }
        if calls > 100000 {
            end = "livelock".to_string();
            break;
        }
    }
    format!("{} end={} calls={}", tohex(&out), end, calls)
}

/// `hexwrite <bytes hex> <accept schedule> <mode>`; mode `one` = a single write call,
/// `all` = write_all.  answer: `ok(<n>)|ok(all)|err(<kind>:<inner>) sink=<text as hex>`
fn hexwrite(args: &[&str]) -> String {
    let data = unhex(args[0]);
    let accept = nums(args[1]);
    let mut sink = ScriptSink { got: vec![], accept, k: 0 };
    let ret = {
        let mut hw = HexWrite::new(&mut sink);
        match args[2] {
            "one" => match hw.write(&data) {
                Ok(n) => format!("ok({})", n),
                Err(e) => show_err(&e),
            },
            _ => match hw.write_all(&data) {
                Ok(()) => "ok(all)".to_string(),
                Err(e) => show_err(&e),
            },
        }
    };
    format!("{} sink={}", ret, tohex(&sink.got))
}

pub fn dispatch(cmd: &str, args: &[&str]) -> Option<String> {
    match cmd {
        "hexread" => Some(hexread(args)),
        "hexwrite" => Some(hexwrite(args)),
        _ => None,
    }
}
