//! Disassembler histories (C04) and listing round trip (C03).

use crate::{tohex, unhex};
use etk_asm::disasm::{Disassembler, Error, Offset};
use etk_asm::ingest::Ingest;
use etk_ops::cancun::{Op, Operation};
use std::io::Write;

fn show_item(it: &Offset<Op<[u8]>>) -> String {
    let code: u8 = it.item.code().into();
    let imm = it.item.immediate().map(|i| i.to_vec()).unwrap_or_default();
    format!("op({},{},{})", it.offset, code, tohex(&imm))
}

/// `dis_hist <tok>...` : w<hex> = write, n = one Iter::next, a = poll until None, f = finish (last).
fn hist(args: &[&str]) -> String {
    let mut d = Some(Disassembler::new());
    let mut out: Vec<String> = vec![];
    for tok in args {
        let (k, rest) = tok.split_at(1);
        match k {
            "w" => {
                let bs = unhex(rest);
                let n = d.as_mut().unwrap().write(&bs).unwrap();
                out.push(format!("w{}", n));
            }
            "n" => match d.as_mut().unwrap().ops().next() {
                Some(it) => out.push(show_item(&it)),
                None => out.push("none".into()),
            },
            "a" => {
                let items: Vec<_> = d.as_mut().unwrap().ops().collect();
                for it in items.iter() {
                    out.push(show_item(it));
                }
                out.push("none".into());
            }
            "f" => match d.take().unwrap().finish() {
                Ok(()) => out.push("fin:ok".into()),
                Err(Error::Truncated { remaining, .. }) => {
                    out.push(format!("fin:trunc({},{})", remaining.offset, tohex(&remaining.item)))
                }
                Err(_) => out.push("fin:other".into()),
            },
            _ => out.push("bad-token".into()),
        }
    }
    out.join(" ")
}

/// `dis_listing <hex>` : disassemble, print `mnemonic` / `mnemonic 0x<imm>`, re-assemble.
fn listing(args: &[&str]) -> String {
    let code = unhex(args[0]);
    let mut d = Disassembler::new();
    d.write_all(&code).unwrap();
    let items: Vec<_> = d.ops().collect();
    let fin = d.finish().is_ok();
    let mut text = String::new();
    let mut offs = vec![];
    for it in items.iter() {
        offs.push(it.offset.to_string());
        text.push_str(&it.item.code().to_string());
        if let Some(imm) = it.item.immediate() {
            text.push_str(" 0x");
            text.push_str(&hex::encode(imm));
        }
        text.push('\n');
    }
    let res = assemble_text(&text);
    let shown = if text.is_empty() { "-".to_string() } else { text.trim_end_matches('\n').replace('\n', "|") };
    format!("fin={} offs={} {} text={}", fin as u8, if offs.is_empty() { "-".to_string() } else { offs.join(",") }, res, shown)
}

fn assemble_text(text: &str) -> String {
    let mut output = Vec::new();
    let r = Ingest::new(&mut output).ingest("./listing.etk", text);
    match r {
        Ok(()) => format!("ok:{}", tohex(&output)),
        Err(e) => format!("err:{}", crate::asm::err_kind(&e)),
    }
}

/// `listing_asm <hex of text>` : assemble a listing-shaped text given verbatim (C03: mutated lines).
fn listing_asm(args: &[&str]) -> String {
    let text = String::from_utf8(unhex(args[0])).expect("harness: text not utf8");
    assemble_text(&text)
}

pub fn dispatch(cmd: &str, args: &[&str]) -> Option<String> {
    match cmd {
        "dis_hist" => Some(hist(args)),
        "dis_listing" => Some(listing(args)),
        "listing_asm" => Some(listing_asm(args)),
        _ => None,
    }
}
