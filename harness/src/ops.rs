//! etk-ops accessors for the three forks (C17).

use crate::{tohex, unhex};

macro_rules! fork_impl {
    ($fname:ident, $m:ident) => {
        pub fn $fname(cmd: &str, args: &[&str]) -> Option<String> {
            use etk_ops::$m::{Op, Operation};
            fn name(op: &Op<()>) -> String {
                let d = format!("{:?}", op);
                d.split('(').next().unwrap().to_string()
            }
            Some(match cmd {
                // one row: code name mnemonic pushes pops extra exits jump jt
                "row" => {
                    let c: u8 = args[0].parse().unwrap();
                    let op = Op::<()>::from(c);
                    let back: u8 = op.into();
                    let m = op.to_string();
                    let parsed: Option<u8> = m.parse::<Op<()>>().ok().map(|o| o.into());
                    format!(
                        "{} {} {} {} {} {} {} {} {}|size={} mnem2={} fromstr={} new={}",
                        back,
                        name(&op),
                        m,
                        op.pushes(),
                        op.pops(),
                        op.extra_len(),
                        op.is_exit() as u8,
                        op.is_jump() as u8,
                        op.is_jump_target() as u8,
                        op.size(),
                        op.mnemonic(),
                        parsed.map(|x| x.to_string()).unwrap_or("none".into()),
                        Op::<[u8]>::new(op).is_some() as u8,
                    )
                }
                "from_str" => match args[0].parse::<Op<()>>() {
                    Ok(o) => name(&o),
                    Err(_) => "none".into(),
                },
                "from_slice" => {
                    let bs = unhex(args[0]);
                    match Op::<[u8]>::from_slice(&bs) {
                        Ok(op) => {
                            let imm = op.immediate().map(|i| i.to_vec()).unwrap_or_default();
                            format!("ok:{} {} size={}", name(&op.code()), tohex(&imm), op.size())
                        }
                        Err(etk_ops::FromSliceError::TryInto { .. }) => "err:TryInto()".into(),
                        Err(etk_ops::FromSliceError::NoImmediate { .. }) => "err:NoImmediate()".into(),
                    }
                }
                "push" => {
                    let sz: usize = args[0].parse().unwrap();
                    match Op::<()>::push(sz) {
                        Some(o) => name(&o),
                        None => "none".into(),
                    }
                }
                "push_for" => {
                    let n: u128 = args[0].parse().unwrap();
                    match Op::<()>::push_for(n) {
                        Some(o) => format!("ok:{}", name(&o)),
                        None => "none".into(),
                    }
                }
                "upsize" => {
                    let c: u8 = args[0].parse().unwrap();
                    match Op::<()>::from(c).upsize() {
                        Some(o) => format!("ok:{}", name(&o)),
                        None => "ok:none".into(),
                    }
                }
                _ => return None,
            })
        }
    };
}

fork_impl!(london, london);
fork_impl!(shanghai, shanghai);
fork_impl!(cancun, cancun);

pub fn dispatch(cmd: &str, args: &[&str]) -> Option<String> {
    if cmd != "ops" {
        return None;
    }
    let fork = args[0];
    let sub = args[1];
    let rest = &args[2..];
    let r = match fork {
        "london" => london(sub, rest),
        "shanghai" => shanghai(sub, rest),
        "cancun" => cancun(sub, rest),
        _ => None,
    };
    Some(r.unwrap_or_else(|| "err:bad-ops-request".into()))
}
