//! Block annotation (C06, C15): render AnnotatedBlock through the public Visit interface.

use crate::unhex;
use etk_asm::disasm::Disassembler;
use etk_dasm::blocks::annotated::{AnnotatedBlock, Exit};
use etk_dasm::blocks::basic::{BasicBlock, Separator};
use etk_dasm::sym::{Expr, Sym, Visit};
use etk_ops::cancun::Op;
use std::io::Write;

struct Show(String);

fn trim_hex(b: &[u8; 32]) -> String {
    let s = hex::encode(b);
    let t = s.trim_start_matches('0');
    if t.is_empty() {
        "0".to_string()
    } else {
        t.to_string()
    }
}

impl Visit for Show {
    type Error = std::convert::Infallible;
    fn empty(&mut self) -> Result<(), Self::Error> {
        self.0.push_str("EMPTY");
        Ok(())
    }
    fn enter(&mut self, s: &Sym) -> Result<(), Self::Error> {
        match s {
            Sym::Const(v) => self.0.push_str(&format!("c{}", trim_hex(v))),
            Sym::Var(v) => self.0.push_str(&format!("{}", v)),
            Sym::GetPc(p) => self.0.push_str(&format!("pc{}", p)),
            other => {
                self.0.push_str(&format!("{:?}", other));
                self.0.push('(');
            }
        }
        Ok(())
    }
    fn between(&mut self, _: &Sym, _: u8) -> Result<(), Self::Error> {
        self.0.push(',');
        Ok(())
    }
    fn exit(&mut self, s: &Sym) -> Result<(), Self::Error> {
        match s {
            Sym::Const(_) | Sym::Var(_) | Sym::GetPc(_) => (),
            _ => self.0.push(')'),
        }
        Ok(())
    }
}

pub fn show_expr(e: &Expr) -> String {
    let mut s = Show(String::new());
    e.walk(&mut s).unwrap();
    s.0
}

pub fn show_annotated(a: &AnnotatedBlock) -> String {
    let ins: Vec<String> = a.inputs.stack.iter().map(|v| format!("{}", v)).collect();
    let outs: Vec<String> = a.outputs.stack.iter().map(show_expr).collect();
    let exit = match &a.exit {
        Exit::Terminate => "term".to_string(),
        Exit::FallThrough(n) => format!("fall({})", n),
        Exit::Unconditional(e) => format!("jump({})", show_expr(e)),
        Exit::Branch { condition, when_true, when_false } => {
            format!("branch({};{};{})", show_expr(condition), show_expr(when_true), when_false)
        }
    };
    format!(
        "blk(off={},size={},jt={},in=[{}],out=[{}],exit={})",
        a.offset,
        a.size,
        a.jump_target as u8,
        ins.join(";"),
        outs.join(";"),
        exit
    )
}

pub fn blocks_of(code: &[u8]) -> Vec<BasicBlock> {
    let mut d = Disassembler::new();
    d.write_all(code).unwrap();
    let mut sep = Separator::new();
    sep.push_all(d.ops());
    let mut v = sep.take();
    v.extend(sep.finish());
    v
}

/// `annot <code hex>`: Disassembler -> Separator -> annotate every block
fn annot(args: &[&str]) -> String {
    let code = unhex(args[0]);
    let blocks = blocks_of(&code);
    let mut out = vec![];
    for b in blocks.iter() {
        out.push(crate::guarded(|| show_annotated(&AnnotatedBlock::annotate(b))));
    }
    if out.is_empty() {
        "-".into()
    } else {
        out.join(" ")
    }
}

/// `annot_block <offset> <instr hex,instr hex,...>`: annotate one hand built BasicBlock
fn annot_block(args: &[&str]) -> String {
    let offset: usize = args[0].parse().unwrap();
    let mut ops = vec![];
    if args[1] != "-" {
        for h in args[1].split(',') {
            ops.push(Op::<[u8]>::from_slice(&unhex(h)).expect("harness: bad instruction"));
        }
    }
    let b = BasicBlock { offset, ops };
    show_annotated(&AnnotatedBlock::annotate(&b))
}

pub fn dispatch(cmd: &str, args: &[&str]) -> Option<String> {
    match cmd {
        "annot" => Some(annot(args)),
        "annot_block" => Some(annot_block(args)),
        _ => None,
    }
}
