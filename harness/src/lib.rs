//! Verification harness library: one function per command family.  Every command takes the
//! whitespace separated fields of one request line and returns one response line.
//! Panics of the code under test are caught and reported as `panic:<message>`.

use std::panic::{catch_unwind, AssertUnwindSafe};

pub mod ops;
pub mod dis;
pub mod blocks;
pub mod hexio;
pub mod asm;
pub mod annot;
pub mod expr;
pub mod peg;

pub fn unhex(s: &str) -> Vec<u8> {
    if s == "-" {
        return vec![];
    }
    hex::decode(s).expect("harness: bad hex in request")
}

pub fn tohex(b: &[u8]) -> String {
    if b.is_empty() {
        "-".to_string()
    } else {
        hex::encode(b)
    }
}

/// Run `f`, turning a panic into `panic:<msg>`.
pub fn guarded<F: FnOnce() -> String>(f: F) -> String {
    match catch_unwind(AssertUnwindSafe(f)) {
        Ok(s) => s,
        Err(e) => {
            let msg = if let Some(s) = e.downcast_ref::<&str>() {
                s.to_string()
            } else if let Some(s) = e.downcast_ref::<String>() {
                s.clone()
            } else {
                "?".to_string()
            };
            format!("panic:{}", msg.replace('\n', " "))
        }
    }
}

pub fn dispatch(fields: &[&str]) -> String {
    if fields.is_empty() {
        return "err:empty-request".into();
    }
    let cmd = fields[0];
    let args = &fields[1..];
    guarded(|| {
        if let Some(r) = ops::dispatch(cmd, args) {
            return r;
        }
        if let Some(r) = dis::dispatch(cmd, args) {
            return r;
        }
        if let Some(r) = blocks::dispatch(cmd, args) {
            return r;
        }
        if let Some(r) = hexio::dispatch(cmd, args) {
            return r;
        }
        if let Some(r) = asm::dispatch(cmd, args) {
            return r;
        }
        if let Some(r) = annot::dispatch(cmd, args) {
            return r;
        }
        if let Some(r) = expr::dispatch(cmd, args) {
            return r;
        }
        if let Some(r) = peg::dispatch(cmd, args) {
            return r;
        }
        format!("err:unknown-command:{}", cmd)
    })
}

pub fn serve<F: Fn(&[&str]) -> String>(f: F) {
    use std::io::{BufRead, Write};
    std::panic::set_hook(Box::new(|_| {}));
    let stdin = std::io::stdin();
    let stdout = std::io::stdout();
    let mut out = stdout.lock();
    for line in stdin.lock().lines() {
        let line = line.unwrap();
        let fields: Vec<&str> = line.split_whitespace().collect();
        if fields.is_empty() {
            continue;
        }
        let r = f(&fields);
        writeln!(out, "R {}", r).unwrap();
    }
    out.flush().unwrap();
}
