//! Assembler entry points (C01 C02 C07-C14 C18).

use crate::{tohex, unhex};
use etk_asm::asm::Error as AsmError;
use etk_asm::ingest::{Error as IngestError, Ingest};
use etk_asm::ParseError;

pub fn parse_kind(e: &ParseError) -> String {
    match e {
        ParseError::ImmediateTooLarge { .. } => "Parse.ImmediateTooLarge()".into(),
        ParseError::Lexer { .. } => "Parse.Lexer()".into(),
        ParseError::MissingArgument { expected, got, .. } => format!("Parse.MissingArgument({},{})", expected, got),
        ParseError::ExtraArgument { expected, .. } => format!("Parse.ExtraArgument({})", expected),
        ParseError::ArgumentType { .. } => "Parse.ArgumentType()".into(),
        _ => "Parse.Other()".into(),
    }
}

pub fn asm_kind(e: &AsmError) -> String {
    match e {
        AsmError::DuplicateLabel { label, .. } => format!("DuplicateLabel({})", label),
        AsmError::DuplicateMacro { name, .. } => format!("DuplicateMacro({})", name),
        AsmError::ExpressionTooLarge { value, spec, .. } => format!("ExpressionTooLarge({},{})", value, spec),
        AsmError::ExpressionNegative { value, .. } => format!("ExpressionNegative({})", value),
        AsmError::UnsizedPushTooLarge { .. } => "UnsizedPushTooLarge()".into(),
        AsmError::UndeclaredLabels { labels, .. } => {
            let mut l = labels.clone();
            l.sort();
            format!("UndeclaredLabels({})", l.join("+"))
        }
        AsmError::UndeclaredInstructionMacro { name, .. } => format!("UndeclaredInstructionMacro({})", name),
        AsmError::UndeclaredExpressionMacro { name, .. } => format!("UndeclaredExpressionMacro({})", name),
        AsmError::ParseInclude { source, .. } => parse_kind(source),
        AsmError::UndeclaredVariableMacro { var, .. } => format!("UndeclaredVariableMacro({})", var),
        AsmError::DivisionByZero { .. } => "DivisionByZero()".into(),
        AsmError::RecursionLimit { .. } => "RecursionLimit()".into(),
        AsmError::MacroArgumentCount { name, .. } => format!("MacroArgumentCount({})", name),
        other => format!("AsmOther({})", format!("{:?}", other).split_whitespace().next().unwrap_or("?")),
    }
}

pub fn err_kind(e: &IngestError) -> String {
    match e {
        IngestError::DirectoryTraversal { .. } => "DirectoryTraversal()".into(),
        IngestError::Io { message, .. } => format!("Io({})", message.replace(' ', "_")),
        IngestError::Parse { source, .. } => parse_kind(source),
        IngestError::Assemble { source, .. } => asm_kind(source),
        IngestError::InvalidHex { .. } => "InvalidHex()".into(),
        IngestError::RecursionLimit { .. } => "RecursionLimit()".into(),
        _ => "IngestOther()".into(),
    }
}

fn finish(r: Result<(), IngestError>, output: Vec<u8>) -> String {
    match r {
        Ok(()) => format!("ok:{}", tohex(&output)),
        Err(e) => format!("err:{} out={}", err_kind(&e), tohex(&output)),
    }
}

/// `asm <src hex>`: Ingest::ingest("./main.etk", src)
fn asm(args: &[&str]) -> String {
    let src = String::from_utf8(unhex(args[0])).expect("harness: source not utf8");
    let mut output = Vec::new();
    let r = Ingest::new(&mut output).ingest("./main.etk", &src);
    finish(r, output)
}

/// `asm_at <path hex> <src hex>`: Ingest::ingest(path, src)
fn asm_at(args: &[&str]) -> String {
    let path = String::from_utf8(unhex(args[0])).unwrap();
    let src = String::from_utf8(unhex(args[1])).expect("harness: source not utf8");
    let mut output = Vec::new();
    let r = Ingest::new(&mut output).ingest(path, &src);
    finish(r, output)
}

/// `asm_file <path hex>`: Ingest::ingest_file(path)
fn asm_file(args: &[&str]) -> String {
    let path = String::from_utf8(unhex(args[0])).unwrap();
    let mut output = Vec::new();
    let r = Ingest::new(&mut output).ingest_file(path);
    finish(r, output)
}

/// `asm_file_cwd <cwd hex> <path hex>`: chdir(cwd), then Ingest::ingest_file(path)
/// (relative source paths and `Root::new`'s use of the current directory; C12/C18)
fn asm_file_cwd(args: &[&str]) -> String {
    let cwd = String::from_utf8(unhex(args[0])).unwrap();
    if let Err(e) = std::env::set_current_dir(&cwd) {
        return format!("err:harness-chdir({})", e.kind().to_string().replace(' ', "_"));
    }
    asm_file(&args[1..])
}

/// `asm_at_cwd <cwd hex> <path hex> <src hex>`: chdir(cwd), then Ingest::ingest(path, src)
fn asm_at_cwd(args: &[&str]) -> String {
    let cwd = String::from_utf8(unhex(args[0])).unwrap();
    if let Err(e) = std::env::set_current_dir(&cwd) {
        return format!("err:harness-chdir({})", e.kind().to_string().replace(' ', "_"));
    }
    asm_at(&args[1..])
}

/// `parse_debug <src hex>`: Debug rendering of the parsed nodes (verif-hooks)
fn parse_debug(args: &[&str]) -> String {
    let src = String::from_utf8(unhex(args[0])).expect("harness: source not utf8");
    match etk_asm::verif_parse_debug(&src) {
        Ok(v) => format!("ok:{}", hex::encode(v.join("\n"))),
        Err(e) => format!("err:{}", e.split_whitespace().next().unwrap_or("?")),
    }
}

pub fn dispatch(cmd: &str, args: &[&str]) -> Option<String> {
    match cmd {
        "asm" => Some(asm(args)),
        "asm_at" => Some(asm_at(args)),
        "asm_file" => Some(asm_file(args)),
        "asm_file_cwd" => Some(asm_file_cwd(args)),
        "asm_at_cwd" => Some(asm_at_cwd(args)),
        "parse_debug" => Some(parse_debug(args)),
        _ => None,
    }
}
