//! Separator histories (C16).

use crate::{tohex, unhex};
use etk_asm::disasm::Offset;
use etk_dasm::blocks::basic::{BasicBlock, Separator};
use etk_ops::cancun::{Op, Operation};

fn show_block(b: &BasicBlock) -> String {
    let ops: Vec<String> = b
        .ops
        .iter()
        .map(|o| {
            let code: u8 = o.code().into();
            let imm = o.immediate().map(|i| i.to_vec()).unwrap_or_default();
            let mut v = vec![code];
            v.extend(imm);
            tohex(&v)
        })
        .collect();
    format!("blk({},{},[{}])", b.offset, b.size(), ops.join(","))
}

/// `sep_hist <instrs> <tok>...`
/// instrs = comma separated `<offset>:<hex of opcode+immediate>` (or `-` for none)
/// tok: P = push next instruction, A<k> = push_all next k, T = take, F = finish
fn hist(args: &[&str]) -> String {
    let mut instrs: Vec<Offset<Op<[u8]>>> = vec![];
    if args[0] != "-" {
        for it in args[0].split(',') {
            let (o, h) = it.split_once(':').unwrap();
            let bs = unhex(h);
            let op = Op::<[u8]>::from_slice(&bs).expect("harness: bad instruction");
            instrs.push(Offset::new(o.parse().unwrap(), op));
        }
    }
    let mut it = instrs.into_iter();
    let mut sep = Separator::new();
    let mut out: Vec<String> = vec![];
    for tok in &args[1..] {
        let (k, rest) = tok.split_at(1);
        match k {
            "P" => {
                let i = it.next().expect("harness: schedule pushes too many");
                out.push(format!("p{}", sep.push(i) as u8));
            }
            "A" => {
                let n: usize = rest.parse().unwrap();
                let batch: Vec<_> = it.by_ref().take(n).collect();
                out.push(format!("a{}", sep.push_all(batch) as u8));
            }
            "T" => {
                let bl = sep.take();
                let s: Vec<String> = bl.iter().map(show_block).collect();
                out.push(format!("t[{}]", s.join(";")));
            }
            "F" => {
                let r = crate::guarded(|| match sep.finish() {
                    Some(b) => format!("f:{}", show_block(&b)),
                    None => "f:none".into(),
                });
                out.push(r);
            }
            _ => out.push("bad-token".into()),
        }
    }
    out.join(" ")
}

pub fn dispatch(cmd: &str, args: &[&str]) -> Option<String> {
    match cmd {
        "sep_hist" => Some(hist(args)),
        _ => None,
    }
}
