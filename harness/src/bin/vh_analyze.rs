//! Harness binary that also links etk-analyze (and therefore z3).
use etk_analyze::cfg::ControlFlowGraph;
use etk_dasm::blocks::annotated::AnnotatedBlock;
use etk_dasm::sym::Expr;
use etk_vh::{annot, guarded, unhex};

/// `cfg <code hex> <refine 0|1>` : DOT text of the graph, hex encoded
fn cfg(args: &[&str]) -> String {
    let code = unhex(args[0]);
    let refine = args.get(1).map(|s| *s == "1").unwrap_or(true);
    let blocks = annot::blocks_of(&code);
    let annotated: Vec<AnnotatedBlock> = blocks.iter().map(AnnotatedBlock::annotate).collect();
    let mut g = ControlFlowGraph::new(annotated.into_iter());
    if refine {
        g.refine_shallow();
    }
    format!("ok:{}", hex::encode(format!("{}", g.render())))
}

// ---- S-expression -> Expr through the public constructors -------------------
fn vars() -> Vec<Expr> {
    // swap16 touches 17 entry slots: inputs are var1..var17
    use etk_dasm::blocks::basic::BasicBlock;
    use etk_ops::cancun::{Op, Swap16};
    let b = BasicBlock { offset: 0, ops: vec![Op::from(Swap16)] };
    let a = AnnotatedBlock::annotate(&b);
    a.inputs.stack.iter().map(|v| Expr::from(*v)).collect()
}

struct P<'a> {
    s: &'a [u8],
    i: usize,
    vars: Vec<Expr>,
}

impl<'a> P<'a> {
    fn ident(&mut self) -> String {
        let st = self.i;
        while self.i < self.s.len() && (self.s[self.i].is_ascii_alphanumeric() || self.s[self.i] == b'_') {
            self.i += 1;
        }
        String::from_utf8(self.s[st..self.i].to_vec()).unwrap()
    }
    fn args(&mut self) -> Vec<Expr> {
        let mut v = vec![];
        assert_eq!(self.s[self.i], b'(');
        self.i += 1;
        if self.s[self.i] == b')' {
            self.i += 1;
            return v;
        }
        loop {
            v.push(self.expr());
            let c = self.s[self.i];
            self.i += 1;
            if c == b')' {
                break;
            }
            assert_eq!(c, b',');
        }
        v
    }
    fn expr(&mut self) -> Expr {
        let id = self.ident();
        if let Some(h) = id.strip_prefix("c_") {
            let mut hs = h.to_string();
            if hs.len() % 2 == 1 {
                hs.insert(0, '0');
            }
            return Expr::constant(hex::decode(hs).unwrap());
        }
        if let Some(n) = id.strip_prefix("var") {
            let k: usize = n.parse().unwrap();
            return self.vars[k - 1].clone();
        }
        if let Some(n) = id.strip_prefix("pc_") {
            return Expr::pc(n.parse().unwrap());
        }
        let a = self.args();
        match (id.as_str(), a.as_slice()) {
            ("Add", [x, y]) => x.add(y),
            ("Sub", [x, y]) => x.sub(y),
            ("Mul", [x, y]) => x.mul(y),
            ("Div", [x, y]) => x.div(y),
            ("SDiv", [x, y]) => x.s_div(y),
            ("Mod", [x, y]) => x.modulo(y),
            ("SMod", [x, y]) => x.s_modulo(y),
            ("AddMod", [x, y, z]) => x.add_mod(y, z),
            ("MulMod", [x, y, z]) => x.mul_mod(y, z),
            ("Exp", [x, y]) => x.exp(y),
            ("Lt", [x, y]) => x.lt(y),
            ("Gt", [x, y]) => x.gt(y),
            ("SLt", [x, y]) => x.s_lt(y),
            ("SGt", [x, y]) => x.s_gt(y),
            ("Eq", [x, y]) => x.is_eq(y),
            ("And", [x, y]) => x.and(y),
            ("Or", [x, y]) => x.or(y),
            ("Xor", [x, y]) => x.xor(y),
            ("Byte", [x, y]) => x.byte(y),
            ("Shl", [x, y]) => x.shl(y),
            ("Shr", [x, y]) => x.shr(y),
            ("Sar", [x, y]) => x.sar(y),
            ("SignExtend", [x, y]) => x.sign_extend(y),
            ("Keccak256", [x, y]) => Expr::keccak256(x, y),
            ("IsZero", [x]) => x.is_zero(),
            ("Not", [x]) => x.not(),
            ("CallDataLoad", [x]) => x.call_data_load(),
            ("ExtCodeSize", [x]) => x.ext_code_size(),
            ("ExtCodeHash", [x]) => x.ext_code_hash(),
            ("MLoad", [x]) => x.m_load(),
            ("SLoad", [x]) => x.s_load(),
            ("Balance", [x]) => x.balance(),
            ("BlockHash", [x]) => x.block_hash(),
            ("Address", []) => Expr::address(),
            ("Origin", []) => Expr::origin(),
            ("Caller", []) => Expr::caller(),
            ("CallValue", []) => Expr::call_value(),
            ("CallDataSize", []) => Expr::call_data_size(),
            ("CodeSize", []) => Expr::code_size(),
            ("GasPrice", []) => Expr::gas_price(),
            ("ReturnDataSize", []) => Expr::return_data_size(),
            ("Coinbase", []) => Expr::coinbase(),
            ("Timestamp", []) => Expr::timestamp(),
            ("Number", []) => Expr::number(),
            ("Difficulty", []) => Expr::difficulty(),
            ("GasLimit", []) => Expr::gas_limit(),
            ("ChainId", []) => Expr::chain_id(),
            ("SelfBalance", []) => Expr::self_balance(),
            ("BaseFee", []) => Expr::base_fee(),
            ("MSize", []) => Expr::m_size(),
            ("Gas", []) => Expr::gas(),
            ("Create", [a, b, c]) => Expr::create(a, b, c),
            ("Create2", [a, b, c, d]) => Expr::create2(a, b, c, d),
            ("Call", [a, b, c, d, e, f, g]) => Expr::call(a, b, c, d, e, f, g),
            ("CallCode", [a, b, c, d, e, f, g]) => Expr::call_code(a, b, c, d, e, f, g),
            ("StaticCall", [a, b, c, d, e, f]) => Expr::static_call(a, b, c, d, e, f),
            ("DelegateCall", [a, b, c, d, e, f]) => Expr::delegate_call(a, b, c, d, e, f),
            (n, a) => panic!("harness: unknown constructor {}/{}", n, a.len()),
        }
    }
}

/// `z3term <sexpr>` : SMT-LIB text of the term built by the implementation (hex encoded)
fn z3term(args: &[&str]) -> String {
    let mut p = P { s: args[0].as_bytes(), i: 0, vars: vars() };
    let e = p.expr();
    format!("ok:{}", hex::encode(etk_analyze::verif::expr_to_smt2(&e)))
}

fn dispatch(fields: &[&str]) -> String {
    match fields[0] {
        "cfg" => guarded(|| cfg(&fields[1..])),
        "z3term" => guarded(|| z3term(&fields[1..])),
        _ => etk_vh::dispatch(fields),
    }
}

fn main() {
    etk_vh::serve(dispatch);
}
