fn main() {
    etk_vh::serve(etk_vh::dispatch);
}
